"""Normalisation of the analysed tree towards the vocabulary of the pinned tree (analyser's view only).

Ordinary maintenance edits - extracting a helper, introducing a temporary for a sub-expression,
renaming a local - do not change behaviour, but they change the *shape* many rules look at.  Using
the name table recorded from the pinned tree (`pinned/locals.json`, see sa/alpha.py) the view of
each module is normalised before any rule runs:

  B. calls of *new* functions (defined in the module but absent from the pinned table) are expanded in
     place when the helper is simple (straight-line body, a single trailing ``return E``, or a chain of
     guard ``if c: return v`` clauses ending in ``return w``);
  C. *new* single-assignment temporaries (locals absent from the pinned table, bound once by a plain
     assignment whose inputs are not rebound before the last use and whose value has no mutating call)
     are replaced by their defining expression;
  A. renamed locals are renamed back (sa/alpha.py).

Every step is an equivalence on the program text for the cases it accepts; anything else is left
untouched, in which case the rules see the edited shape and judge it as it is.
"""
import ast

from .model import FUNC_TYPES, set_parents, parent
from . import alpha

MUTATING = set(["append", "extend", "insert", "pop", "popleft", "remove", "clear", "add", "discard", "update", "setdefault", "write", "process",
                "send", "put", "sort", "reverse", "seek", "read", "readline", "readlines", "next", "add_exception", "add_dependency", "add_ignore"])


def _clone(node):
    """Fresh copy of an AST node without the analyser's parent/module links."""
    if isinstance(node, ast.expr):
        return ast.parse(ast.unparse(node), mode="eval").body
    return ast.parse(ast.unparse(node)).body[0]


def _clone_stmts(stmts):
    return ast.parse("\n".join(ast.unparse(s) for s in stmts)).body if stmts else []


class _Subst(ast.NodeTransformer):
    def __init__(self, mapping):
        self.mapping = mapping      # name -> expr node (will be cloned on every use)

    def visit_Name(self, node):
        if isinstance(node.ctx, ast.Load) and node.id in self.mapping:
            return _clone(self.mapping[node.id])
        return node

    def visit_Call(self, node):
        # f(x, **kw) where kw is the helper's pass-through **parameter: the keywords given at the call site take its place
        kws = []
        for k in node.keywords:
            if k.arg is None and isinstance(k.value, ast.Name) and ("**" + k.value.id) in self.mapping:
                kws.extend(ast.keyword(arg=x.arg, value=_clone(x.value)) for x in self.mapping["**" + k.value.id].keywords)
            else:
                kws.append(k)
        node.keywords = kws
        return self.generic_visit(node)


def _own_stmt_nodes(fn):
    return list(alpha._own_nodes(fn))


def _returns(fn):
    return [n for n in _own_stmt_nodes(fn) if isinstance(n, ast.Return)]


def _is_docstring(st):
    return isinstance(st, ast.Expr) and isinstance(st.value, ast.Constant) and isinstance(st.value.value, str)


def _guard_chain(body):
    """[(cond, value)] + final value for ``if c: return v`` ... ``return w`` bodies (else None)."""
    body = [s for s in body if not _is_docstring(s)]
    chain = []
    for s in body[:-1]:
        if isinstance(s, ast.If) and not s.orelse and len(s.body) == 1 and isinstance(s.body[0], ast.Return) and s.body[0].value is not None:
            chain.append((s.test, s.body[0].value))
        else:
            return None
    if not body or not isinstance(body[-1], ast.Return) or body[-1].value is None:
        return None
    return chain, body[-1].value


def _guard_return_nf(body):
    """Body without returns, equivalent as a statement: top-level ``if c: return`` guards wrap the rest; None if a return sits elsewhere."""
    out = []
    for i, st in enumerate(body):
        if isinstance(st, ast.Return):
            if any(isinstance(x, ast.Return) for s2 in body[i + 1:] for x in ast.walk(s2)):
                return None
            return out      # a final bare return; anything after it is dead
        if isinstance(st, ast.If) and not st.orelse and len(st.body) == 1 and isinstance(st.body[0], ast.Return):
            rest = _guard_return_nf(body[i + 1:])
            if rest is None:
                return None
            if rest:
                test = st.test.operand if isinstance(st.test, ast.UnaryOp) and isinstance(st.test.op, ast.Not) else ast.UnaryOp(op=ast.Not(), operand=st.test)
                out.append(ast.If(test=test, body=rest, orelse=[]))
            return out
        if any(isinstance(x, ast.Return) for x in ast.walk(st) if not isinstance(x, FUNC_TYPES)):
            return None
        out.append(st)
    return out


def _helper_expr(fn):
    """An expression equivalent to calling the helper, or None."""
    body = [s for s in fn.body if not _is_docstring(s)]
    if len(body) == 1 and isinstance(body[0], ast.Return) and body[0].value is not None:
        return _clone(body[0].value)
    gc = _guard_chain(fn.body)
    if gc is None:
        return None
    chain, final = gc
    expr = _clone(final)
    for cond, val in reversed(chain):
        if isinstance(val, ast.Constant) and val.value is False:
            expr = ast.BoolOp(op=ast.And(), values=[ast.UnaryOp(op=ast.Not(), operand=_clone(cond)), expr])
        elif isinstance(val, ast.Constant) and val.value is True:
            expr = ast.BoolOp(op=ast.Or(), values=[_clone(cond), expr])
        else:
            expr = ast.IfExp(test=_clone(cond), body=_clone(val), orelse=expr)
    return ast.parse(ast.unparse(expr), mode="eval").body


def _bind_args(fn, call, is_method):
    """{param: arg expr} or None when the call cannot be matched positionally/by keyword."""
    a = fn.args
    if a.vararg or a.kwonlyargs or a.posonlyargs:
        return None
    passthrough = None
    if a.kwarg:
        # a **parameter is fine when the helper does nothing with it but hand it on as **kw
        kw = a.kwarg.arg
        uses = [x for x in ast.walk(fn) if isinstance(x, ast.Name) and x.id == kw]
        handed = [k.value for c in ast.walk(fn) if isinstance(c, ast.Call) for k in c.keywords if k.arg is None and isinstance(k.value, ast.Name) and k.value.id == kw]
        if not uses or len(uses) != len(handed) or any(u not in handed for u in uses):
            return None
        passthrough = kw
    names = [x.arg for x in a.args]
    if is_method:
        names = names[1:]
    if any(isinstance(x, ast.Starred) for x in call.args) or any(k.arg is None for k in call.keywords):
        return None
    if len(call.args) > len(names):
        return None
    m = {}
    for n, v in zip(names, call.args):
        m[n] = v
    extra = []
    for k in call.keywords:
        if k.arg not in names or k.arg in m:
            if passthrough is not None and k.arg not in names:
                extra.append(k)
                continue
            return None
        m[k.arg] = k.value
    if passthrough is not None:
        m["**" + passthrough] = ast.Call(func=ast.Name(id="__kw__", ctx=ast.Load()), args=[], keywords=extra)
    defaults = dict(zip(names[len(names) - len(a.defaults):], a.defaults)) if a.defaults else {}
    for n in names:
        if n not in m:
            if n in defaults:
                m[n] = defaults[n]
            else:
                return None
    # arguments are substituted textually: keep it to side-effect free arguments
    for v in m.values():
        for x in ast.walk(v):
            if isinstance(x, ast.Call) and isinstance(x.func, ast.Attribute) and x.func.attr in MUTATING:
                return None
    return m


def _assigned_names(fn):
    out = set()
    for n in _own_stmt_nodes(fn):
        if isinstance(n, ast.Name) and isinstance(n.ctx, ast.Store):
            out.add(n.id)
    return out


def _block_of(stmt):
    p = parent(stmt)
    for fld in ("body", "orelse", "finalbody"):
        lst = getattr(p, fld, None)
        if isinstance(lst, list):
            for i, s in enumerate(lst):
                if s is stmt:
                    return lst, i
    return None, None


def _stmt_of(node):
    n = node
    while n is not None and not isinstance(n, ast.stmt):
        n = parent(n)
    return n


def inline_new_helpers(mod, pinned):
    """Expand calls of helpers that do not exist on the pinned tree.  Returns number of expansions."""
    new = {}
    # a function that carries the name of a pinned function of this module was moved (nested helper <-> method <-> module level), not introduced:
    # the rules know it by that name, so it stays a function of the view
    pinned_names = set(k.rsplit(".", 1)[-1] for k in pinned if not k.startswith("__"))
    for q, lst in mod.defs.items():
        fn = lst[-1]
        if isinstance(fn, FUNC_TYPES) and q not in pinned and fn.name in pinned_names:
            continue
        if isinstance(fn, FUNC_TYPES) and q not in pinned and "." in q and not any(isinstance(a, FUNC_TYPES) for a in [parent(fn)]):
            cls = parent(fn)
            if isinstance(cls, ast.ClassDef):
                new[("self", fn.name)] = fn
        elif isinstance(fn, FUNC_TYPES) and q not in pinned and "." not in q:
            new[(None, fn.name)] = fn
        elif isinstance(fn, FUNC_TYPES) and q not in pinned and isinstance(parent(fn), FUNC_TYPES):
            new[(None, fn.name)] = fn      # new nested helper
    if not new:
        return 0
    count = 0
    host_names = {}
    for _round in range(8):
        changed = False
        for call in [n for n in ast.walk(mod.tree) if isinstance(n, ast.Call)]:
            key = None
            if isinstance(call.func, ast.Name) and (None, call.func.id) in new:
                key = (None, call.func.id)
            elif isinstance(call.func, ast.Attribute) and isinstance(call.func.value, ast.Name) and call.func.value.id in ("self", "cls") and ("self", call.func.attr) in new:
                key = ("self", call.func.attr)
            if key is None:
                continue
            helper = new[key]
            if any(n is helper for n in _ancestors(call)):
                continue      # recursion
            if any(isinstance(x, ast.Call) and ((isinstance(x.func, ast.Name) and x.func.id == helper.name) or (isinstance(x.func, ast.Attribute) and x.func.attr == helper.name))
                   for x in ast.walk(helper)):
                continue      # a recursive helper has no finite expansion
            st = _stmt_of(call)
            if st is None:
                continue
            static = any(isinstance(d, ast.Name) and d.id == "staticmethod" for d in helper.decorator_list)
            binding = _bind_args(helper, call, key[0] == "self" and not static)
            if binding is None:
                continue
            body = [s for s in helper.body if not _is_docstring(s)]
            rets = _returns(helper)
            hlocals = _assigned_names(helper)
            host = _enclosing_fn(call)
            # a parameter the helper rebinds cannot be substituted by its argument: it becomes a local of the host, initialised with the argument
            # ('return helper(p, ...)' with the argument being the host's own, now dead, variable p needs not even that)
            rebound = sorted(hlocals & set(binding))
            tail_call = isinstance(st, ast.Return) and st.value is call
            # ... nor when the calling assignment overwrites that very variable with (part of) the helper's result:  pos, res = helper(pos, ...)
            back = set(x.id for t in st.targets for x in ast.walk(t) if isinstance(x, ast.Name)) if isinstance(st, ast.Assign) and st.value is call else set()
            identity = set(p for p in rebound if (tail_call or p in back) and isinstance(binding[p], ast.Name) and binding[p].id == p)
            if any(isinstance(x, ast.Name) and x.id in hlocals and not (x is v and p in identity) for p, v in binding.items() for x in ast.walk(v)):
                continue          # an argument reads a name the helper assigns: leave alone
            if host is not None:
                if id(host) not in host_names:
                    host_names[id(host)] = _assigned_names(host) | set(alpha._params(host))
                # 'x = helper(...)' where the helper has a local x of its own: the host's x is dead at the call (no argument reads it, checked above)
                # and is assigned by the statement anyway, so the helper's x may live in it (unless a handler of the host could observe it half-way)
                own_target = set()
                if isinstance(st, ast.Assign) and st.value is call and len(st.targets) == 1 and isinstance(st.targets[0], ast.Name) \
                        and not any(isinstance(a, ast.Try) for a in _ancestors(st) if not isinstance(a, ast.Module)):
                    own_target.add(st.targets[0].id)
                if back and not any(isinstance(a, ast.Try) for a in _ancestors(st) if not isinstance(a, ast.Module)) and len(st.targets) == 1 \
                        and isinstance(st.targets[0], ast.Tuple) and all(isinstance(e_, ast.Name) for e_ in st.targets[0].elts):
                    own_target |= back          # a, b = helper(...): both are dead before and assigned by the statement (tuple assignment evaluates the right side first)
                if (hlocals - identity - own_target) & host_names[id(host)]:
                    continue      # name capture: leave alone
            pre_assign = []
            for p_ in rebound:
                if p_ in identity:
                    binding.pop(p_)
                    continue
                pre_assign.append(ast.Assign(targets=[ast.Name(id=p_, ctx=ast.Store())], value=_clone(binding.pop(p_)), lineno=st.lineno, col_offset=0))
            if pre_assign:
                if _helper_expr(helper) is not None:
                    continue
                for pa in pre_assign:
                    ast.fix_missing_locations(pa)
                body = pre_assign + body
            lst, i = _block_of(st)
            if lst is None:
                continue
            # (1) statement call of a helper without value-returning return
            if isinstance(st, ast.Expr) and st.value is call and not [r for r in rets if r.value is not None] and not rets[:-1] and (not rets or body[-1] is rets[-1]):
                new_stmts = _clone_stmts([s for s in body if not isinstance(s, ast.Return)]) or [ast.Pass()]
                new_stmts = [_Subst(binding).visit(s) for s in new_stmts]
                _place(new_stmts, st)
                lst[i:i + 1] = new_stmts
                changed = True
                count += 1
                break
            # (1b) statement call of a helper whose only returns are bare top-level guard returns: if c: return ; rest  ==  if not c: rest
            if isinstance(st, ast.Expr) and st.value is call and rets and not [r for r in rets if r.value is not None and not (isinstance(r.value, ast.Constant) and r.value.value is None)]:
                nf = _guard_return_nf(body)
                if nf is not None:
                    new_stmts = _clone_stmts(nf) or [ast.Pass()]
                    new_stmts = [_Subst(binding).visit(s) for s in new_stmts]
                    _place(new_stmts, st)
                    lst[i:i + 1] = new_stmts
                    changed = True
                    count += 1
                    break
            # (2) helper equivalent to an expression
            expr = _helper_expr(helper)
            if expr is not None:
                e2 = _Subst(binding).visit(ast.Expression(body=expr)).body
                _replace_expr(call, e2)
                _place([e2], st)
                changed = True
                count += 1
                break
            # (3) straight-line helper ending in one return, called as the whole right-hand side / return value / loop iterable
            whole = (isinstance(st, ast.Assign) and st.value is call) or (isinstance(st, ast.Return) and st.value is call) or (isinstance(st, (ast.For, ast.AsyncFor)) and st.iter is call)
            if len(rets) == 1 and body and body[-1] is rets[0] and rets[0].value is not None and whole:
                pre = [_Subst(binding).visit(s) for s in _clone_stmts(body[:-1])]
                val = _Subst(binding).visit(ast.Expression(body=_clone(rets[0].value))).body
                if isinstance(st, (ast.For, ast.AsyncFor)):
                    st.iter = val
                else:
                    st.value = val
                _place(pre + [val], st)
                if isinstance(st, ast.Assign) and len(st.targets) == 1 and isinstance(st.targets[0], ast.Name) and isinstance(val, ast.Name) and val.id == st.targets[0].id:
                    lst[i:i + 1] = pre or [ast.copy_location(ast.Pass(), st)]          # x = x
                else:
                    lst[i:i] = pre
                changed = True
                count += 1
                break
            # (3b) the same helper shape called inside a larger expression of an assignment / return / expression statement:
            # its statements can be hoisted in front of the statement when no other call is evaluated before it
            if len(rets) == 1 and body and body[-1] is rets[0] and rets[0].value is not None and isinstance(st, (ast.Assign, ast.Return, ast.Expr)) \
                    and st.value is not None and _contains(st.value, call) and not _contains_any(body[:-1], (ast.Return,)):
                anc = set(id(a) for a in _ancestors(call))
                others = [c for c in ast.walk(st.value) if isinstance(c, ast.Call) and c is not call and id(c) not in anc and not _contains(call, c)]
                lazy = any(isinstance(a, (ast.IfExp, ast.BoolOp, ast.Lambda, ast.ListComp, ast.SetComp, ast.DictComp, ast.GeneratorExp)) for a in _ancestors(call) if _contains(st.value, a))
                if not others and not lazy:
                    pre = [_Subst(binding).visit(s) for s in _clone_stmts(body[:-1])]
                    val = _Subst(binding).visit(ast.Expression(body=_clone(rets[0].value))).body
                    _replace_expr(call, val)
                    _place(pre + [val], st)
                    lst[i:i] = pre
                    changed = True
                    count += 1
                    break
            # (4) 'return helper(...)': the helper's returns are the host's returns, whatever its shape
            if isinstance(st, ast.Return) and st.value is call and not any(isinstance(x, (ast.Yield, ast.YieldFrom)) for x in _own_stmt_nodes(helper)):
                from .model import terminates
                new_stmts = [_Subst(binding).visit(s) for s in _clone_stmts(body)]
                if not terminates(new_stmts):
                    new_stmts.append(ast.Return(value=ast.Constant(value=None)))
                _place(new_stmts, st)
                lst[i:i + 1] = new_stmts
                changed = True
                count += 1
                break
        if not changed:
            break
        ast.fix_missing_locations(mod.tree)
        set_parents(mod.tree)
    # a new helper all of whose uses were expanded is dead in the view: drop it, so that no rule looks at its body twice
    if count:
        for key, helper in list(new.items()):
            name = helper.name
            still = [n for n in ast.walk(mod.tree) if (isinstance(n, ast.Name) and n.id == name) or (isinstance(n, ast.Attribute) and n.attr == name)]
            still = [n for n in still if not any(a is helper for a in _ancestors(n))]
            from .model import parent as _par
            if not still and (isinstance(_par(helper), ast.Module) or not _used_elsewhere(mod, name)):
                lst, i = _block_of(helper)
                if lst is not None:
                    lst.pop(i)
                    if not lst:
                        lst.append(ast.Pass())
        ast.fix_missing_locations(mod.tree)
        set_parents(mod.tree)
    return count


def _used_elsewhere(mod, name):
    """Is the identifier mentioned in another source file of the analysed package (a subclass may call an inherited helper)?"""
    import os
    import re
    rx = re.compile(r"\b%s\b" % re.escape(name))
    root = os.path.join(mod.repo.root, "insights")
    for dp, dns, fns in os.walk(root):
        dns[:] = [d for d in dns if d not in ("tests", "__pycache__")]
        for f in fns:
            if not f.endswith(".py"):
                continue
            path = os.path.join(dp, f)
            rel = os.path.relpath(path, mod.repo.root)
            if rel == mod.rel:
                continue
            try:
                src = mod.repo.overlay[rel] if rel in mod.repo.overlay else open(path, encoding="utf-8", errors="replace").read()
            except OSError:
                continue
            if rx.search(src):
                return True
    return False


def _ancestors(n):
    p = parent(n)
    while p is not None:
        yield p
        p = parent(p)


def _enclosing_fn(n):
    for a in _ancestors(n):
        if isinstance(a, FUNC_TYPES):
            return a
    return None


def _place(nodes, at):
    """Give new nodes the source position of the construct they replace (for diagnostics)."""
    for root in nodes:
        for n in ast.walk(root):
            if not hasattr(n, "lineno") or getattr(n, "lineno", None) is None or True:
                try:
                    n.lineno = at.lineno
                    n.col_offset = at.col_offset
                    n.end_lineno = getattr(at, "end_lineno", at.lineno)
                    n.end_col_offset = getattr(at, "end_col_offset", at.col_offset)
                except AttributeError:
                    pass


def _replace_expr(old, new):
    p = parent(old)
    for fld, val in ast.iter_fields(p):
        if val is old:
            setattr(p, fld, new)
            return True
        if isinstance(val, list):
            for i, x in enumerate(val):
                if x is old:
                    val[i] = new
                    return True
    return False


def propagate_new_temporaries(mod, pinned):
    """Replace new single-assignment temporaries by their defining expression.  Returns #replaced."""
    count = 0
    for q, lst in list(mod.defs.items()):
        fn = lst[-1]
        if not isinstance(fn, FUNC_TYPES) or q not in pinned:
            continue
        pin_locals = set(n for n, _ in pinned[q]["locals"]) | set(pinned[q]["params"])
        for _round in range(12):
            cur = [n for n, _ in alpha.local_bindings(fn)]
            cand = [n for n in cur if n not in pin_locals]
            done = False
            for name in cand:
                nodes = [n for n in _own_stmt_nodes(fn) if isinstance(n, ast.Name) and n.id == name]
                stores = [n for n in nodes if isinstance(n.ctx, ast.Store)]
                loads = [n for n in nodes if isinstance(n.ctx, ast.Load)]
                if len(stores) != 1 or not loads:
                    continue
                st = _stmt_of(stores[0])
                if not (isinstance(st, ast.Assign) and len(st.targets) == 1 and st.targets[0] is stores[0]):
                    continue
                # a name that a nested function / class reads or writes (closure variable) is shared state, not a temporary
                def _free_in(d_):
                    if not any(isinstance(x, ast.Name) and x.id == name for x in ast.walk(d_)):
                        return False
                    if isinstance(d_, FUNC_TYPES):
                        own = set(alpha._params(d_)) | set(n_ for n_, _s in alpha.local_bindings(d_))
                        if any(isinstance(x, (ast.Global, ast.Nonlocal)) and name in x.names for x in ast.walk(d_)):
                            return True
                        return name not in own
                    if isinstance(d_, ast.Lambda):
                        return name not in [a.arg for a in d_.args.args]
                    return True
                if any(_free_in(d_) for d_ in ast.walk(fn) if d_ is not fn and isinstance(d_, FUNC_TYPES + (ast.ClassDef, ast.Lambda))):
                    continue
                # uses inside nested functions/lambdas would change evaluation time
                if any(isinstance(a, FUNC_TYPES + (ast.Lambda,)) and a is not fn for l in loads for a in _ancestors(l) if _is_inside(a, fn)):
                    continue
                rhs = st.value
                if any(isinstance(x, (ast.Yield, ast.YieldFrom, ast.Await, ast.NamedExpr)) for x in ast.walk(rhs)):
                    continue
                # the definition must come first, in a block that encloses every use
                lst_, i_ = _block_of(st)
                if lst_ is None:
                    continue
                later = set()
                for s in lst_[i_ + 1:]:
                    for x in ast.walk(s):
                        later.add(id(x))
                if not all(id(l) in later for l in loads):
                    continue
                # inputs of the value must not be rebound between the definition and the last use
                bound_inside = set(x.id for x in ast.walk(rhs) if isinstance(x, ast.Name) and isinstance(x.ctx, ast.Store))
                inputs = set(x.id for x in ast.walk(rhs) if isinstance(x, ast.Name)) - bound_inside
                last = max(l.lineno for l in loads)
                rhs_nodes = set(id(x) for x in ast.walk(rhs))
                rebound = [n for n in _own_stmt_nodes(fn) if isinstance(n, ast.Name) and isinstance(n.ctx, ast.Store) and n.id in inputs and id(n) not in rhs_nodes
                           and st.lineno < n.lineno < last]
                if rebound:
                    continue
                # the temporary must not be the target of a mutation (replacing it by its value would mutate a different object)
                def _mutated_through(l):
                    p_ = l._parent if hasattr(l, "_parent") else None
                    from .model import parent as _par
                    p_ = _par(l)
                    if isinstance(p_, (ast.Subscript, ast.Attribute)) and p_.value is l:
                        if isinstance(p_.ctx, (ast.Store, ast.Del)):
                            return True
                        pp = _par(p_)
                        if isinstance(p_, ast.Attribute) and p_.attr in MUTATING and isinstance(pp, ast.Call) and pp.func is p_:
                            return True
                        if isinstance(pp, ast.AugAssign) and pp.target is p_:
                            return True
                    if isinstance(p_, ast.AugAssign) and p_.target is l:
                        return True
                    return False
                # (a plain reference - name / attribute / subscript chain - denotes the same object before and after, so it may be mutated through)
                def _pure_ref(e):
                    while isinstance(e, (ast.Attribute, ast.Subscript)):
                        if isinstance(e, ast.Subscript) and not isinstance(e.slice, (ast.Constant, ast.Name)):
                            return False
                        e = e.value
                    return isinstance(e, ast.Name)
                pure = _pure_ref(rhs)
                if not pure and any(_mutated_through(l) for l in loads):
                    continue
                # several uses of a freshly built mutable object would become several objects
                fresh = any(isinstance(x, (ast.Dict, ast.List, ast.Set, ast.ListComp, ast.SetComp, ast.DictComp, ast.GeneratorExp)) for x in ast.walk(rhs)) or \
                    any(isinstance(x, ast.Call) and _call_tail(x) in FRESH for x in ast.walk(rhs))
                if fresh and len(loads) > 1:
                    continue
                # the objects the value is computed from must not be mutated between the definition and the last use
                rhs_paths = set()
                for x in ast.walk(rhs):
                    if isinstance(x, (ast.Attribute, ast.Subscript, ast.Name)):
                        try:
                            rhs_paths.add(ast.unparse(x))
                        except Exception:
                            pass

                def _related(t):
                    """Does a write to path ``t`` change what the value denotes?"""
                    for p_ in rhs_paths:
                        if p_ == t or p_.startswith(t + ".") or p_.startswith(t + "["):
                            return True          # the path itself (or a prefix of it) is rebound
                        if not pure and (t.startswith(p_ + ".") or t.startswith(p_ + "[")):
                            return True          # the object read is modified and the value is computed from it
                    return False

                def _mutates_input(n):
                    if isinstance(n, (ast.Subscript, ast.Attribute)) and isinstance(n.ctx, (ast.Store, ast.Del)):
                        try:
                            return _related(ast.unparse(n))
                        except Exception:
                            return True
                    if isinstance(n, ast.Call) and isinstance(n.func, ast.Attribute) and n.func.attr in MUTATING:
                        if pure:
                            return False
                        try:
                            t = ast.unparse(n.func.value)
                        except Exception:
                            return True
                        return any(p_ == t or p_.startswith(t + ".") or p_.startswith(t + "[") or t.startswith(p_ + ".") or t.startswith(p_ + "[") for p_ in rhs_paths)
                    return False
                if any(_mutates_input(n) for n in _own_stmt_nodes(fn) if hasattr(n, "lineno") and st.lineno < n.lineno < last and id(n) not in rhs_nodes):
                    continue
                # loops: a use inside a loop that does not contain the definition would re-evaluate the value each iteration;
                # harmless for pure values, but skip values containing calls in that case
                has_call = any(isinstance(x, ast.Call) for x in ast.walk(rhs))
                def _reevaluated(l):
                    child = l
                    for a in _ancestors(l):
                        if a is fn:
                            break
                        if isinstance(a, ast.While) and not any(a is b for b in _ancestors(st)):
                            return True
                        if isinstance(a, (ast.For, ast.AsyncFor)) and not any(a is b for b in _ancestors(st)) and child is not a.iter:
                            return True
                        if isinstance(a, (ast.ListComp, ast.SetComp, ast.GeneratorExp, ast.DictComp)):
                            # only the first iterable of a comprehension is evaluated once
                            if not (a.generators and child is a.generators[0] and _contains(a.generators[0].iter, l)):
                                return True
                        child = a
                    return False
                in_loop = any(_reevaluated(l) for l in loads)
                # a use inside a loop that does not contain the definition sees the value computed *before* the loop:
                # the inputs must not be rebound anywhere in such a loop
                def _loop_rebinds(l):
                    for a in _ancestors(l):
                        if a is fn:
                            break
                        if isinstance(a, (ast.While, ast.For, ast.AsyncFor)) and not any(a is b for b in _ancestors(st)):
                            for x in ast.walk(a):
                                if isinstance(x, ast.Name) and isinstance(x.ctx, (ast.Store, ast.Del)) and x.id in inputs:
                                    return True
                    return False
                if any(_loop_rebinds(l) for l in loads):
                    continue
                if has_call and in_loop:
                    continue
                nonbenign = any(isinstance(x, ast.Call) and not _benign_call(x) for x in ast.walk(rhs))
                if nonbenign:
                    # a value with an effectful call may only move into the statement that directly follows its definition
                    # (moving it across another statement could reorder effects and hide a real change of order)
                    nxt = lst_[i_ + 1] if i_ + 1 < len(lst_) else None
                    if nxt is None or len(loads) != 1 or not any(x is loads[0] for x in ast.walk(nxt)):
                        continue
                    # and inside that statement it must be evaluated before anything else effectful: accept plain return / assignment / call argument
                    if not isinstance(nxt, (ast.Return, ast.Assign, ast.Expr, ast.If)):
                        continue
                    if isinstance(nxt, ast.If) and not any(x is loads[0] for x in ast.walk(nxt.test)):
                        continue
                if has_call and len(loads) > 1:
                    # several uses of a call result: keep the temporary unless the call is a plain predicate/getter
                    if any(isinstance(x, ast.Call) and not _benign_call(x) for x in ast.walk(rhs)):
                        continue
                for l in loads:
                    new = _clone(rhs)
                    _place([new], l)
                    _replace_expr(l, new)
                lst_.pop(i_)
                if not lst_:
                    lst_.append(ast.Pass())
                ast.fix_missing_locations(mod.tree)
                set_parents(mod.tree)
                count += 1
                done = True
                break
            if not done:
                break
    return count


FRESH = set(["list", "dict", "set", "sorted", "split", "rsplit", "splitlines", "keys", "values", "items", "reversed", "copy", "deepcopy", "OrderedDict", "defaultdict", "findall"])


def _call_tail(c):
    from .model import dotted
    n = dotted(c.func) or (c.func.attr if isinstance(c.func, ast.Attribute) else "")
    return n.split(".")[-1]


def _contains_any(stmts, kinds):
    return any(isinstance(x, kinds) for s_ in stmts for x in ast.walk(s_))


def _contains(root, sub):
    return any(x is sub for x in ast.walk(root))


def _benign_call(c):
    from .model import dotted
    n = dotted(c.func) or ""
    tail = n.split(".")[-1]
    return tail in ("isinstance", "len", "getattr", "hasattr", "get", "keys", "values", "items", "lower", "upper", "strip", "lstrip", "rstrip", "startswith", "endswith",
                    "join", "format", "split", "basename", "dirname", "realpath", "abspath", "exists", "lexists", "isfile", "isdir", "islink", "is_enabled", "get_name",
                    "get_delegate", "get_registry_points", "get_dependencies", "get_dependents", "is_datasource", "is_rule", "str", "int", "bool", "set", "list", "dict", "tuple", "sorted",
                    "reversed", "format_exc", "get_filters", "get_component_type", "search", "findall", "group", "groups", "partition", "rpartition", "replace") or n in ("os.path.join",)


def _is_inside(a, fn):
    return any(x is fn for x in _ancestors(a)) or a is fn


def canonical_control(mod):
    """Always-on canonical forms of two control idioms (applied to every parsed module, changed or not, so that rules see one form):

    * inside a loop body, ``if c: continue`` followed by more statements becomes ``if not c: <those statements>``;
    * ``if not c: A else: B`` becomes ``if c: B else: A`` (B not an elif chain).

    Both are identities of the language.  Returns the number of rewrites."""
    n = 0
    changed = True
    while changed:
        changed = False
        for loop in ast.walk(mod.tree):
            if not isinstance(loop, (ast.For, ast.While, ast.AsyncFor)):
                continue
            todo = [loop.body]
            while todo:
                body = todo.pop()
                for i, st in enumerate(body):
                    if isinstance(st, ast.If) and len(st.body) == 1 and isinstance(st.body[0], ast.Continue) and not st.orelse and i + 1 < len(body):
                        rest = body[i + 1:]
                        test = st.test.operand if isinstance(st.test, ast.UnaryOp) and isinstance(st.test.op, ast.Not) else ast.copy_location(ast.UnaryOp(op=ast.Not(), operand=st.test), st.test)
                        new = ast.If(test=test, body=rest, orelse=[])
                        ast.copy_location(new, st)
                        body[i:] = [new]
                        n += 1
                        changed = True
                        todo.append(new.body)      # the wrapped rest is still the tail of the loop body
                        break
                    # if c: A ...; continue   followed by rest   ==   if c: A ... else: rest      (same position: directly in the loop body or in its tail)
                    if isinstance(st, ast.If) and len(st.body) >= 2 and isinstance(st.body[-1], ast.Continue) and not st.orelse and i + 1 < len(body) \
                            and not any(isinstance(x, (ast.Continue, ast.Break)) for y in st.body[:-1] for x in ast.walk(y)):
                        rest = body[i + 1:]
                        new = ast.If(test=st.test, body=st.body[:-1], orelse=rest)
                        ast.copy_location(new, st)
                        body[i:] = [new]
                        n += 1
                        changed = True
                        todo.append(new.orelse)
                        break
            if changed:
                break
        if changed:
            set_parents(mod.tree)
    # a conditional expression used as a statement is an if statement:  X if c else None  ->  if c: X   (and  None if c else X -> if not c: X)
    for holder in list(ast.walk(mod.tree)):
        for field in ("body", "orelse", "finalbody"):
            lst = getattr(holder, field, None)
            if not isinstance(lst, list):
                continue
            for i, st in enumerate(lst):
                if isinstance(st, ast.Expr) and isinstance(st.value, ast.IfExp):
                    v = st.value
                    none_else = isinstance(v.orelse, ast.Constant) and v.orelse.value is None
                    none_body = isinstance(v.body, ast.Constant) and v.body.value is None
                    if none_else == none_body:
                        continue
                    test = v.test if none_else else ast.copy_location(ast.UnaryOp(op=ast.Not(), operand=v.test), v.test)
                    act = v.body if none_else else v.orelse
                    new = ast.If(test=test, body=[ast.copy_location(ast.Expr(value=act), st)], orelse=[])
                    ast.copy_location(new, st)
                    lst[i] = new
                    n += 1
    # A if A else B  ->  A or B   (A a plain name / attribute chain: evaluating it once or twice is the same)
    class _OrForm(ast.NodeTransformer):
        def visit_IfExp(self, node):
            self.generic_visit(node)
            t, b = node.test, node.body
            plain = lambda e: isinstance(e, ast.Name) or (isinstance(e, ast.Attribute) and plain(e.value))
            if plain(t) and plain(b) and ast.dump(t) == ast.dump(b):
                return ast.copy_location(ast.BoolOp(op=ast.Or(), values=[b, node.orelse]), node)
            return node
    class _InForm(ast.NodeTransformer):
        """X == c1 or X == c2 [or ...]  ->  X in (c1, c2, ...)   (same X, constants; X a plain name / attribute)"""
        def visit_BoolOp(self, node):
            self.generic_visit(node)
            if not isinstance(node.op, ast.Or) or len(node.values) < 2:
                return node
            left = None
            consts = []
            for v in node.values:
                if not (isinstance(v, ast.Compare) and len(v.ops) == 1 and isinstance(v.ops[0], ast.Eq) and isinstance(v.comparators[0], ast.Constant)
                        and isinstance(v.comparators[0].value, (str, int)) and (isinstance(v.left, ast.Name) or isinstance(v.left, ast.Attribute))):
                    return node
                d = ast.dump(v.left)
                if left is None:
                    left = d
                elif left != d:
                    return node
                consts.append(v.comparators[0])
            cnt[0] += 1
            new = ast.Compare(left=node.values[0].left, ops=[ast.In()], comparators=[ast.Tuple(elts=consts, ctx=ast.Load())])
            return ast.copy_location(new, node)
    class _DeMorgan(ast.NodeTransformer):
        """not a and not b  ->  not (a or b) ;  not a or not b  ->  not (a and b)   (all operands negated)"""
        def visit_BoolOp(self, node):
            self.generic_visit(node)
            if len(node.values) >= 2 and all(isinstance(v, ast.UnaryOp) and isinstance(v.op, ast.Not) for v in node.values):
                inner = ast.BoolOp(op=ast.Or() if isinstance(node.op, ast.And) else ast.And(), values=[v.operand for v in node.values])
                cnt[0] += 1
                return ast.copy_location(ast.UnaryOp(op=ast.Not(), operand=ast.copy_location(inner, node)), node)
            return node
    before = n
    tr = _OrForm()
    cnt = [0]
    orig_visit = tr.visit_IfExp

    def counting(node):
        r = orig_visit(node)
        if r is not node:
            cnt[0] += 1
        return r
    tr.visit_IfExp = counting
    tr.visit(mod.tree)
    _InForm().visit(mod.tree)
    _DeMorgan().visit(mod.tree)
    n += cnt[0]
    if n:
        set_parents(mod.tree)
    for st in ast.walk(mod.tree):
        if isinstance(st, ast.If) and st.orelse and isinstance(st.test, ast.UnaryOp) and isinstance(st.test.op, ast.Not) \
                and not (len(st.orelse) == 1 and isinstance(st.orelse[0], ast.If)):
            p_ = parent(st)
            if isinstance(p_, ast.If) and len(p_.orelse) == 1 and p_.orelse[0] is st:
                continue
            st.test = st.test.operand
            st.body, st.orelse = st.orelse, st.body
            n += 1
    if n:
        ast.fix_missing_locations(mod.tree)
        set_parents(mod.tree)
    return n


def _const_expr(e, known):
    """A module-level value that is the same immutable object meaning wherever it is written: literals, tuples of them, + / % of them, names of other
    such constants, frozenset(<literal collection>)."""
    if isinstance(e, ast.Constant):
        return True
    if isinstance(e, ast.Tuple):
        return all(_const_expr(x, known) for x in e.elts)
    if isinstance(e, ast.BinOp) and isinstance(e.op, (ast.Add, ast.Mod, ast.Mult)):
        return _const_expr(e.left, known) and _const_expr(e.right, known)
    if isinstance(e, ast.Name):
        return e.id in known
    if isinstance(e, ast.Call) and isinstance(e.func, ast.Name) and e.func.id == "frozenset" and len(e.args) == 1 and not e.keywords \
            and isinstance(e.args[0], (ast.Tuple, ast.List, ast.Set, ast.Constant)) and all(isinstance(x, ast.Constant) for x in getattr(e.args[0], "elts", [])):
        return True
    return False


def new_module_constants(mod, pinned):
    """name -> defining expression, for module-level names absent from the pinned tree, bound once to a constant expression and never rebound."""
    top = pinned.get("__top__")
    if top is None:
        return {}
    out = {}
    stores = {}
    for n in ast.walk(mod.tree):
        if isinstance(n, ast.Name) and isinstance(n.ctx, (ast.Store, ast.Del)):
            stores[n.id] = stores.get(n.id, 0) + 1
        elif isinstance(n, ast.arg):
            stores[n.arg] = stores.get(n.arg, 0) + 1
        elif isinstance(n, (ast.Global, ast.Nonlocal)):
            for x in n.names:
                stores[x] = stores.get(x, 0) + 2
        elif isinstance(n, FUNC_TYPES + (ast.ClassDef,)):
            stores[n.name] = stores.get(n.name, 0) + 1
        elif isinstance(n, ast.alias):
            nm = (n.asname or n.name).split(".")[0]
            stores[nm] = stores.get(nm, 0) + 1
    for st in mod.tree.body:
        if isinstance(st, ast.Assign) and len(st.targets) == 1 and isinstance(st.targets[0], ast.Name):
            nm = st.targets[0].id
            if nm in top or stores.get(nm, 0) != 1 or nm.startswith("__"):
                continue
            if _const_expr(st.value, out):
                out[nm] = st.value
    return out


def inline_new_constants(mod, pinned, repo_lookup=None):
    """D. A literal hoisted into a *new* named module constant (possibly imported from another analysed module where it is new as well) is read as the
    literal.  Equivalence: the name is bound once, to an immutable value, and never rebound, shadowed or declared global anywhere in the module."""
    consts = dict(new_module_constants(mod, pinned))
    imported = {}
    if repo_lookup is not None:
        top = pinned.get("__top__") or []
        for st in mod.tree.body:
            if isinstance(st, ast.ImportFrom) and st.module and st.level == 0:
                for al in st.names:
                    nm = al.asname or al.name
                    if nm in top:
                        continue
                    src = repo_lookup(st.module)
                    if src is not None and al.name in src:
                        imported[nm] = src[al.name]
    n = 0
    shadow = {}
    for nm in imported:
        cnt = 0
        for x in ast.walk(mod.tree):
            if isinstance(x, ast.Name) and x.id == nm and isinstance(x.ctx, (ast.Store, ast.Del)):
                cnt += 1
            elif isinstance(x, ast.arg) and x.arg == nm:
                cnt += 1
            elif isinstance(x, (ast.Global, ast.Nonlocal)) and nm in x.names:
                cnt += 1
        shadow[nm] = cnt
    table = dict(consts)
    table.update(dict((k, v) for k, v in imported.items() if not shadow.get(k)))

    def expand(e, depth=0):
        e = _clone(e)
        if depth > 6:
            return e
        if isinstance(e, ast.Name) and e.id in table:
            return expand(table[e.id], depth + 1)
        for x in list(ast.walk(e)):
            for fld, val in list(ast.iter_fields(x)):
                if isinstance(val, ast.Name) and val.id in table:
                    setattr(x, fld, expand(table[val.id], depth + 1))
                elif isinstance(val, list):
                    for i, y in enumerate(val):
                        if isinstance(y, ast.Name) and y.id in table:
                            val[i] = expand(table[y.id], depth + 1)
        return e
    defs = set(id(st.value) for st in mod.tree.body if isinstance(st, ast.Assign) and len(st.targets) == 1 and isinstance(st.targets[0], ast.Name) and st.targets[0].id in consts)
    for x in list(ast.walk(mod.tree)):
        if isinstance(x, ast.Name) and isinstance(x.ctx, ast.Load) and x.id in table:
            if any(id(a) in defs for a in _ancestors(x)):
                continue
            new = expand(table[x.id])
            _place([new], x)
            if _replace_expr(x, new):
                n += 1
    # class-level: a literal hoisted into a new name of the class body, used by later statements of the same class body
    ctop = pinned.get("__classtop__") or {}
    for c in [x for x in mod.tree.body if isinstance(x, ast.ClassDef)]:
        known = ctop.get(c.name)
        if known is None:
            continue
        cnt = {}
        for st in c.body:
            if isinstance(st, (ast.Assign, ast.AnnAssign, ast.AugAssign)):
                for tg in (st.targets if isinstance(st, ast.Assign) else [st.target]):
                    for x in ast.walk(tg):
                        if isinstance(x, ast.Name):
                            cnt[x.id] = cnt.get(x.id, 0) + 1
        ctab = {}
        for st in c.body:
            if isinstance(st, ast.Assign) and len(st.targets) == 1 and isinstance(st.targets[0], ast.Name):
                nm = st.targets[0].id
                if nm not in known and cnt.get(nm) == 1 and not nm.startswith("__") and _const_expr(st.value, ctab):
                    ctab[nm] = st.value
        if not ctab:
            continue
        for st in c.body:
            if isinstance(st, FUNC_TYPES + (ast.ClassDef,)):
                continue
            if isinstance(st, ast.Assign) and len(st.targets) == 1 and isinstance(st.targets[0], ast.Name) and st.targets[0].id in ctab:
                continue
            for x in list(ast.walk(st)):
                if isinstance(x, ast.Name) and isinstance(x.ctx, ast.Load) and x.id in ctab:
                    v = ctab[x.id]
                    for _ in range(6):
                        if isinstance(v, ast.Name) and v.id in ctab:
                            v = ctab[v.id]
                    new = _clone(v)
                    _place([new], x)
                    if _replace_expr(x, new):
                        n += 1
    if n:
        set_parents(mod.tree)
    return n


def lambdaify_new_closures(mod, pinned):
    """B'. A *new* nested function that is nothing but ``return <expr>`` and whose name is read exactly once in the enclosing function (handed on as a
    value) is the lambda it abbreviates:  def f(v): return E ; g(f)  ==  g(lambda v: E).  Only undecorated functions with plain positional parameters."""
    n = 0
    for host in [f for f in ast.walk(mod.tree) if isinstance(f, FUNC_TYPES)]:
        for st in list(host.body):
            if not isinstance(st, FUNC_TYPES) or isinstance(st, ast.AsyncFunctionDef) or st.decorator_list:
                continue
            q = None
            for k, lst in mod.defs.items():
                if any(x is st for x in lst):
                    q = k
            if q is None or q in pinned:
                continue
            a = st.args
            if a.vararg or a.kwarg or a.kwonlyargs or a.posonlyargs or a.defaults:
                continue
            body = [b for b in st.body if not _is_docstring(b)]
            if len(body) != 1 or not isinstance(body[0], ast.Return) or body[0].value is None:
                continue
            if any(isinstance(x, (ast.Yield, ast.YieldFrom, ast.Await)) for x in ast.walk(body[0])):
                continue
            uses = [x for x in ast.walk(host) if isinstance(x, ast.Name) and x.id == st.name and not any(anc is st for anc in _ancestors(x))]
            stores = [x for x in uses if not isinstance(x.ctx, ast.Load)]
            if len(uses) != 1 or stores or any(isinstance(x, ast.Name) and x.id == st.name for x in ast.walk(body[0])):
                continue
            use = uses[0]
            if getattr(use, "lineno", 0) < st.lineno:
                continue
            lam = ast.Lambda(args=_clone(a), body=_clone(body[0].value))
            _place([lam], use)
            if _replace_expr(use, lam):
                host.body.remove(st)
                n += 1
    if n:
        ast.fix_missing_locations(mod.tree)
        set_parents(mod.tree)
    return n


def normalise(mod):
    """Apply D, B, A, C, A.  Returns a small report dict."""
    rep = {"inlined": 0, "propagated": 0, "renamed": 0, "constants": 0}
    pinned = alpha.table().get(mod.name)
    if not pinned:
        return rep
    import hashlib
    unchanged = pinned.get("__digest__") == hashlib.sha1(mod.src.encode("utf-8")).hexdigest()
    try:
        rl = getattr(mod, "const_lookup", None)
        rep["constants"] = inline_new_constants(mod, pinned, rl) if not unchanged else 0
    except Exception:
        pass
    if rep["constants"]:
        mod.reindex()
    if unchanged:
        return rep          # byte-identical to the pinned module: nothing else to normalise
    try:
        rep["inlined"] = inline_new_helpers(mod, pinned)
    except Exception:
        pass
    try:
        rep["closures"] = lambdaify_new_closures(mod, pinned)
    except Exception:
        rep["closures"] = 0
    if rep["inlined"] or rep.get("closures"):
        mod.reindex()
    # rename first (a renamed local must not be mistaken for a new temporary), propagate what is really new, then rename again
    # (a propagated temporary can restore the binding shape a pinned local is recognised by)
    try:
        rep["renamed"] = alpha.normalise(mod)
    except Exception:
        pass
    try:
        rep["propagated"] = propagate_new_temporaries(mod, pinned)
    except Exception:
        pass
    if rep["propagated"]:
        try:
            rep["renamed"] += alpha.normalise(mod)
        except Exception:
            pass
    return rep


def desugar_list_comprehension(fn, stmt):
    """View transformation of one statement of ``fn``:  R = [E for T in G if C]  ->  R = []; for T in G: if C: R.append(E)
    where G may be a local bound exactly once to a generator expression that is consumed only here (the two are fused:
    for t in IT: T = elt; ...).  Refuses (returns False) when a comprehension variable is also a name of the function, so the
    loop variables of the written-out form cannot clobber anything.  Element-by-element evaluation order is unchanged."""
    lst, i = _block_of(stmt)
    if lst is None or not (isinstance(stmt, ast.Assign) and len(stmt.targets) == 1 and isinstance(stmt.targets[0], ast.Name) and isinstance(stmt.value, ast.ListComp)):
        return False
    lc = stmt.value
    if len(lc.generators) != 1 or lc.generators[0].is_async:
        return False
    g = lc.generators[0]
    res = stmt.targets[0].id
    inside = set(id(x) for x in ast.walk(stmt))
    own = set(x.id for x in _own_stmt_nodes(fn) if isinstance(x, ast.Name) and isinstance(x.ctx, ast.Store) and id(x) not in inside) | set(alpha._params(fn))
    tnames = set(x.id for x in ast.walk(g.target) if isinstance(x, ast.Name))
    inner = None
    gen_def = None
    if isinstance(g.iter, ast.GeneratorExp) and len(g.iter.generators) == 1 and not g.iter.generators[0].is_async:
        inner = g.iter
        tnames |= set(x.id for x in ast.walk(inner.generators[0].target) if isinstance(x, ast.Name))
    elif isinstance(g.iter, ast.Name):
        nm = g.iter.id
        stores = [x for x in _own_stmt_nodes(fn) if isinstance(x, ast.Name) and x.id == nm and isinstance(x.ctx, (ast.Store, ast.Del))]
        loads = [x for x in ast.walk(fn) if isinstance(x, ast.Name) and x.id == nm and isinstance(x.ctx, ast.Load)]
        if len(stores) == 1 and len(loads) == 1:
            d = parent(stores[0])
            dl, di = _block_of(d) if isinstance(d, ast.Assign) else (None, None)
            if dl is lst and di == i - 1 and isinstance(d.value, ast.GeneratorExp) and len(d.value.generators) == 1 and not d.value.generators[0].is_async:
                inner = d.value
                gen_def = d
                tnames |= set(x.id for x in ast.walk(inner.generators[0].target) if isinstance(x, ast.Name))
    if tnames & own or res in tnames:
        return False

    def guarded(ifs, body):
        for t in reversed(ifs):
            body = [ast.If(test=_clone(t), body=body, orelse=[])]
        return body
    app = ast.Expr(value=ast.Call(func=ast.Attribute(value=ast.Name(id=res, ctx=ast.Load()), attr="append", ctx=ast.Load()), args=[_clone(lc.elt)], keywords=[]))
    body = guarded(g.ifs, [app])
    if inner is not None:
        ig = inner.generators[0]
        bind = ast.Assign(targets=[_store(_clone(g.target))], value=_clone(inner.elt))
        loop = ast.For(target=_store(_clone(ig.target)), iter=_clone(ig.iter), body=guarded(ig.ifs, [bind] + body), orelse=[])
    else:
        loop = ast.For(target=_store(_clone(g.target)), iter=_clone(g.iter), body=body, orelse=[])
    init = ast.Assign(targets=[ast.Name(id=res, ctx=ast.Store())], value=ast.List(elts=[], ctx=ast.Load()))
    new = [init, loop]
    for n in new:
        ast.copy_location(n, stmt)
        for x in ast.walk(n):
            if not hasattr(x, "lineno") or True:
                x.lineno = stmt.lineno
                x.end_lineno = getattr(stmt, "end_lineno", stmt.lineno)
                x.col_offset = getattr(stmt, "col_offset", 0)
                x.end_col_offset = getattr(stmt, "end_col_offset", 0)
    if gen_def is not None:
        lst[i - 1:i + 1] = new
    else:
        lst[i:i + 1] = new
    ast.fix_missing_locations(fn)
    set_parents(fn)
    return True


def _store(t):
    for x in ast.walk(t):
        if isinstance(x, (ast.Name, ast.Tuple, ast.List, ast.Starred, ast.Attribute, ast.Subscript)) and hasattr(x, "ctx"):
            x.ctx = ast.Store()
    return t
