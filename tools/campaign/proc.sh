#!/bin/bash
# usage: proc.sh c13 c14 ...   -> before-eval (frozen verif) + confirmation, sequential
for p in "$@"; do
  for x in A B; do
    d=/tmp/wt/$p/_seed5/$x.diff
    [ -f $d ] || continue
    /venv/bin/python /tmp/verif_before/tools/eval_diff.py $d > /tmp/wt/before/$p$x.json 2>/dev/null
    (cd /verif && /venv/bin/python tools/confirm_seed.py $d /tmp/wt/$p/_seed5/${x}_demo.py ${p}${x}5 > /tmp/wt/confirm/${p}${x}5.log 2>&1)
  done
done
