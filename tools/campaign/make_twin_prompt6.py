import json, sys, os, re, glob
pid = sys.argv[1]
props = {}
for l in open('/verif/properties.jsonl'):
    p = json.loads(l); props[p['id']] = p
p = props[pid]
wt = "/tmp/wt/f%s" % pid.lower()[1:]
prev = []
for f in sorted(glob.glob("/verif/seeded/twins/%s*.md" % pid)):
    prev += [l.strip().lstrip("#*").strip()[:170] for l in open(f).read().splitlines() if re.match(r"^(#+ *|\*\*)?T[1-4]\b", l.strip())]
prev_txt = "\n".join("    * " + t for t in prev)
print(f"""You are working in a scratch git worktree of the open-source Python project RedHatInsights/insights-core, checked out at {wt} (the sandbox has no network). Work ONLY inside {wt}. Never read or modify /repo or /verif or any other checkout; they are out of bounds. Do NOT use `git stash` (it is shared between worktrees); use `git diff > file`, `git apply`, `git apply -R`, `git checkout -- .`.

First make sure the worktree source is clean: `cd {wt} && git checkout -- . && git status --short`.

How to run things: always `cd {wt}` first so that this copy is imported instead of the installed one (`/venv/bin/python -c "import insights; print(insights.__file__)"` must print a path under {wt}). Tests: `cd {wt} && /venv/bin/python -m pytest -q -p no:cacheprovider --timeout=900 <paths>`. On the unmodified tree exactly 50 tests fail for environment reasons (ids in /tmp/wt/BASELINE_FAILING.txt); a few tests under insights/tests/specs share fixed /tmp paths and can fail spuriously while other runs are active - re-run such a test alone before blaming your change.

This semantic property currently HOLDS for the code base:

  Title: {p['title']}
  Statement: {p['statement']}
  Where the mechanism lives (files): {', '.join(p['anchors']['files'])}
  Mechanisms: {'; '.join(m['name'] + ' @ ' + m['where'] for m in p['anchors']['mechanism'])}

Several such edits were already made by someone else; make yours DIFFERENT in kind and, where possible, in the function touched:
{prev_txt}

Your task is the OPPOSITE of breaking it: produce FOUR independent, realistic, BEHAVIOUR-PRESERVING maintenance edits (T1..T4) to the functions/classes that implement this property (the mechanisms listed above, or helpers they rely on), of the kind that shows up in ordinary upstream commits, each of which keeps the property TRUE and changes no observable behaviour relevant to it. Make them different in kind, for example: renaming local variables or a private helper; extracting part of a function into a helper function (or inlining one); replacing a construct by an equivalent idiom (a loop by a comprehension, nested ifs by a conjunction or by early `continue`/`return`, `x not in y` vs `not x in y`, `len(x) == 0` vs `not x`, `dict()` vs `{{}}`, `%`-formatting vs `.format`); reordering statements that are independent of each other; adding a debug log line, a comment, a docstring, a type hint or an assertion that always holds; splitting a long boolean condition over a temporary variable; hoisting a literal into a named module constant; small safe performance tweaks. Each edit should touch the core of the mechanism (not just whitespace or comments), be 3-30 changed lines, and must NOT change what the property talks about. Do not edit tests.

For each edit k in 1..4: apply it on the clean tree, run the test directories related to the files you touched (and the full suite `... insights` at least once for the four edits together or separately, ~80 s), confirm no test fails beyond the baseline list, save it as {wt}/_twin6/Tk.diff (`git diff` against the clean tree, apply-able with `git apply` from the repository root), then restore the tree (`git checkout -- .`) before starting the next one, so that the four diffs are independent. Also write {wt}/_twin6/T.md with, for each edit, one paragraph starting with a line `## Tk - <short title>`: what it changes and a short argument why behaviour (and the property) is unchanged. Finish with the worktree source clean. In your final answer list the four edits (files/functions touched, kind of edit) in at most 12 lines.""")
