import json, sys, os, glob
pid = sys.argv[1]
props = {}
for l in open('/verif/properties.jsonl'):
    p = json.loads(l); props[p['id']] = p
p = props[pid]
wt = "/tmp/wt/%s" % pid.lower()
prev = []
for d in sorted(glob.glob("/verif/seeded/%s-[A-J]" % pid)):
    m = json.load(open(os.path.join(d, "meta.json")))
    t = m.get("what_it_breaks_and_needs") or m.get("needs") or m.get("what") or ""
    lines = [l.strip().lstrip("#").strip() for l in t.splitlines() if l.strip()]
    prev.append(" ".join(lines[:3])[:210])
prev_txt = "\n".join("    * " + t for t in prev)
print(f"""You are working in a scratch git worktree of the open-source Python project RedHatInsights/insights-core, checked out at {wt} (this exact commit; the sandbox has no network). Work ONLY inside {wt}. Never read or modify /repo or /verif or any other checkout; they are out of bounds.

How to run things: always `cd {wt}` first so that this copy is imported instead of the installed one (check once with `cd {wt} && /venv/bin/python -c "import insights; print(insights.__file__)"` - it must print a path under {wt}). Tests: `cd {wt} && /venv/bin/python -m pytest -q -p no:cacheprovider --timeout=900 <paths>`. The whole suite (`... insights`) takes about 70-90 seconds (longer while other jobs run on the machine). On the UNMODIFIED tree exactly 50 tests fail for environment reasons; their ids are listed in /tmp/wt/BASELINE_FAILING.txt (format classname::testname). A change "passes the existing tests" when it adds no failing test beyond that list. A few tests under insights/tests/specs share fixed /tmp paths and can fail spuriously while other runs are active - re-run such a test alone before blaming your change.

The property below is a semantic property that currently HOLDS for this code base:

  Title: {p['title']}
  Statement: {p['statement']}
  Where the mechanism lives (files): {', '.join(p['anchors']['files'])}

{len(prev)} changes were already made by other people; do NOT repeat them or close variations of them, and prefer a different function / clause of the property, or a different KIND of defect (e.g. a cooperating pair of edits in two places that each look fine alone; state that leaks between calls; an error path; an off-by-one on a boundary; a change in a helper far from the anchor that the mechanism relies on):
{prev_txt}

Do NOT use `git stash` (it is shared between worktrees); use `git diff > file`, `git apply`, `git apply -R`, `git checkout -- .`. Start by making sure the source is clean (`git checkout -- . && git status --short`).

Your task: produce ONE realistic source change (call it A) which BREAKS this property while
  (a) the package still imports and compiles,
  (b) the project's existing test suite still passes (no new failures relative to the baseline list; run at least every test directory related to the files you touched, and preferably the full suite once per change),
  (c) the breakage needs something specific to manifest - a particular interleaving or ordering, a crash or fault at a particular point, a multi-step sequence of operations, an unusual input, a particular hash seed, or two cooperating sites that each look fine alone - NOT something ordinary use or the existing tests would expose at once,
  (d) it reads like a plausible maintenance edit (refactoring, optimisation, clean-up, small feature tweak, "simplification"), not like sabotage, and is small (ideally under ~25 changed lines). Do not edit tests.

For the change X = A deliver, in the directory {wt}/_seed6/ (create it):
  - X.diff : `git diff` of the change against the clean worktree (apply-able with `git apply` from the repository root; source files only, no tests),
  - X_demo.py : a small standalone program (or a pytest file runnable as `python -m pytest X_demo.py`) that demonstrates the violation: it FAILS (non-zero exit) when X.diff is applied and PASSES (exit 0) on the clean tree. It must run from the worktree root with /venv/bin/python, need no network, and finish in under a minute.
  - X.md : 5-15 lines: which clause of the property it breaks, why the existing tests do not notice, and exactly what is needed for it to manifest.
Verify both directions yourself (demo passes clean, fails with the diff; test suite results compared with the baseline list). Finish with the worktree source restored to the clean state (`git checkout -- .`), leaving only your untracked _seed6/ directory. Work quickly (aim to finish within 15 minutes; run the related test directories first and the full suite once). In your final answer give, for A: the files touched, a one-paragraph description, and the commands you ran with their outcomes (including how many tests failed and whether any is outside the baseline list).""")
