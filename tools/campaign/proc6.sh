#!/bin/bash
for p in "$@"; do
  d=/tmp/wt/$p/_seed6/A.diff
  [ -f $d ] || continue
  (cd /verif && /venv/bin/python tools/confirm_seed.py $d /tmp/wt/$p/_seed6/A_demo.py ${p}A6 > /tmp/wt/confirm/${p}A6.log 2>&1)
done
