#!/bin/bash
# usage: eval_twins6.sh <verif-root> <outdir>
V=$1; O=$2; mkdir -p $O
ls /tmp/wt/f*/_twin6/T*.diff | xargs -P 8 -I{} sh -c 'd={}; p=$(echo $d | sed "s#/tmp/wt/f\([0-9]*\)/_twin6/\(T[0-9]\).diff#c\1\2#"); /venv/bin/python '$V'/tools/eval_diff.py $d > '$O'/$p.json 2>/dev/null'
