#!/usr/bin/env python3
"""Compare a junit xml of the baseline command with BASELINE.json stable_pass."""
import json, sys, xml.etree.ElementTree as ET
base = set(json.load(open('/root/.vp/BASELINE.json'))['stable_pass'])
root = ET.parse(sys.argv[1]).getroot()
passed, failed = set(), set()
for tc in root.iter('testcase'):
    tid = (tc.get('classname') or '') + '::' + (tc.get('name') or '')
    if tc.find('failure') is not None or tc.find('error') is not None: failed.add(tid)
    elif tc.find('skipped') is not None: pass
    else: passed.add(tid)
passed -= failed
miss = sorted(base - passed)
print("stable_pass=%d passed_now=%d regressions=%d" % (len(base), len(passed), len(miss)))
for m in miss[:20]: print("  REGRESSION", m)
sys.exit(1 if miss else 0)
