#!/venv/bin/python
"""Mechanical behaviour-preserving rewrites of every anchor file, applied as in-memory overlays; all 20 quick checks must stay silent.

    tools/mech_twins.py [format|rename|ret_temp|cond_temp|guard_continue|swap_else|lit_ctor|len_zero|in_keys|else_after_return|early_return|all] [PID ...]

format          ast.unparse(ast.parse(src)): layout, quotes, comments
rename          every local of every function gets a new name
ret_temp        return <expr>            ->  result_ = <expr>; return result_
cond_temp       if <a and/or b>: ...     ->  cond_ = <a and/or b>; if cond_: ...       (only plain if statements, not elif)
guard_continue  for ...: ...; if c: body ->  for ...: ...; if not c: continue; body    (if is the last statement of the loop body, no else)
swap_else       if c: A else: B          ->  if not c: B else: A                        (B is not an elif chain)

Nothing is written to /repo.  Exit 0 when every check is silent under every selected rewrite, 1 otherwise.
"""
import ast
import importlib
import json
import os
import sys

HERE = os.path.dirname(os.path.dirname(os.path.abspath(__file__)))
sys.path.insert(0, HERE)
from sa import alpha                                  # noqa: E402
from sa.model import FUNC_TYPES, Repo, set_parents    # noqa: E402
from sa.report import Check                           # noqa: E402

ROOT = os.environ.get("VERIF_ROOT", "/repo")


def anchor_files():
    files = set()
    for l in open(os.path.join(HERE, "properties.jsonl")):
        p = json.loads(l)
        for f in p["anchors"]["files"]:
            if f.endswith(".py") and "/tests/" not in f and os.path.isfile(os.path.join(ROOT, f)):
                files.add(f)
    return sorted(files)


def t_format(tree):
    return 1


def t_rename(tree):
    n = 0
    fns = [x for x in ast.walk(tree) if isinstance(x, FUNC_TYPES)]
    for fn in sorted(fns, key=lambda x: -x.lineno):
        src = ast.unparse(fn)
        if "locals()" in src or "vars()" in src or "eval(" in src or "exec" in src:
            continue
        if any(isinstance(x, (ast.Global, ast.Nonlocal)) for x in ast.walk(fn)):
            continue
        mapping = dict((a, a + "_rn") for a, _ in alpha.local_bindings(fn) if not a.startswith("__"))
        if mapping:
            alpha._Rename(mapping).run(fn)
            n += len(mapping)
    return n


def _blocks(tree):
    for holder in ast.walk(tree):
        for field in ("body", "orelse", "finalbody"):
            lst = getattr(holder, field, None)
            if isinstance(lst, list) and lst and isinstance(lst[0], ast.stmt):
                yield holder, field, lst


def _fn_of(node):
    from sa.model import parent
    n = node
    while n is not None and not isinstance(n, FUNC_TYPES):
        n = parent(n)
    return n


def _fresh(fn, base):
    used = set(x.id for x in ast.walk(fn) if isinstance(x, ast.Name)) | set(a.arg for a in ast.walk(fn) if isinstance(a, ast.arg))
    k = base
    i = 0
    while k in used:
        i += 1
        k = "%s%d" % (base, i)
    return k


def t_ret_temp(tree):
    n = 0
    for holder, field, lst in list(_blocks(tree)):
        i = 0
        while i < len(lst):
            st = lst[i]
            fn = _fn_of(st)
            if isinstance(st, ast.Return) and st.value is not None and not isinstance(st.value, (ast.Name, ast.Constant)) and fn is not None \
                    and not any(isinstance(x, (ast.Yield, ast.YieldFrom, ast.Await)) for x in ast.walk(st.value)):
                name = _fresh(fn, "result_")
                a = ast.Assign(targets=[ast.Name(id=name, ctx=ast.Store())], value=st.value)
                r = ast.Return(value=ast.Name(id=name, ctx=ast.Load()))
                ast.copy_location(a, st)
                ast.copy_location(r, st)
                lst[i:i + 1] = [a, r]
                i += 1
                n += 1
            i += 1
    return n


def t_cond_temp(tree):
    from sa.model import parent
    n = 0
    for holder, field, lst in list(_blocks(tree)):
        i = 0
        while i < len(lst):
            st = lst[i]
            fn = _fn_of(st)
            is_elif = isinstance(holder, ast.If) and field == "orelse" and len(lst) == 1
            if isinstance(st, ast.If) and isinstance(st.test, ast.BoolOp) and fn is not None and not is_elif \
                    and not any(isinstance(x, (ast.NamedExpr, ast.Yield, ast.Await)) for x in ast.walk(st.test)):
                name = _fresh(fn, "cond_")
                a = ast.Assign(targets=[ast.Name(id=name, ctx=ast.Store())], value=st.test)
                ast.copy_location(a, st)
                st.test = ast.copy_location(ast.Name(id=name, ctx=ast.Load()), st)
                lst[i:i] = [a]
                i += 1
                n += 1
            i += 1
    return n


def _neg(test):
    if isinstance(test, ast.UnaryOp) and isinstance(test.op, ast.Not):
        return test.operand
    return ast.UnaryOp(op=ast.Not(), operand=test)


def t_guard_continue(tree):
    n = 0
    for loop in [x for x in ast.walk(tree) if isinstance(x, (ast.For, ast.While))]:
        body = loop.body
        last = body[-1]
        if isinstance(last, ast.If) and not last.orelse and len(body) >= 1 and not any(isinstance(x, (ast.NamedExpr,)) for x in ast.walk(last.test)):
            g = ast.If(test=_neg(last.test), body=[ast.Continue()], orelse=[])
            ast.copy_location(g, last)
            ast.copy_location(g.body[0], last)
            loop.body = body[:-1] + [g] + last.body
            n += 1
    return n


def t_swap_else(tree):
    n = 0
    for st in [x for x in ast.walk(tree) if isinstance(x, ast.If)]:
        if st.orelse and not (len(st.orelse) == 1 and isinstance(st.orelse[0], ast.If)) and not any(isinstance(x, ast.NamedExpr) for x in ast.walk(st.test)):
            from sa.model import parent
            p = parent(st)
            if isinstance(p, ast.If) and len(p.orelse) == 1 and p.orelse[0] is st:
                continue        # part of an elif chain
            st.test = _neg(st.test)
            st.body, st.orelse = st.orelse, st.body
            n += 1
    return n


def t_lit_ctor(tree):
    n = 0

    class T(ast.NodeTransformer):
        def visit_Call(self, node):
            nonlocal n
            self.generic_visit(node)
            if isinstance(node.func, ast.Name) and not node.args and not node.keywords:
                if node.func.id == "dict":
                    n += 1
                    return ast.copy_location(ast.Dict(keys=[], values=[]), node)
                if node.func.id == "list":
                    n += 1
                    return ast.copy_location(ast.List(elts=[], ctx=ast.Load()), node)
            return node
    T().visit(tree)
    return n


def _bool_positions(tree):
    for x in ast.walk(tree):
        if isinstance(x, (ast.If, ast.While, ast.IfExp)):
            yield x, "test"
        elif isinstance(x, ast.UnaryOp) and isinstance(x.op, ast.Not):
            yield x, "operand"
        elif isinstance(x, ast.BoolOp):
            for i in range(len(x.values)):
                yield x, ("values", i)


def t_len_zero(tree):
    n = 0
    for holder, field in list(_bool_positions(tree)):
        e = getattr(holder, field) if isinstance(field, str) else holder.values[field[1]]
        if isinstance(e, ast.Compare) and len(e.ops) == 1 and isinstance(e.left, ast.Call) and isinstance(e.left.func, ast.Name) and e.left.func.id == "len" and len(e.left.args) == 1 \
                and isinstance(e.comparators[0], ast.Constant) and e.comparators[0].value == 0:
            x = e.left.args[0]
            if isinstance(e.ops[0], ast.Eq):
                new = ast.UnaryOp(op=ast.Not(), operand=x)
            elif isinstance(e.ops[0], (ast.Gt, ast.NotEq)):
                new = x
            else:
                continue
            ast.copy_location(new, e)
            if isinstance(field, str):
                setattr(holder, field, new)
            else:
                holder.values[field[1]] = new
            n += 1
    return n


def t_in_keys(tree):
    n = 0
    for c in [x for x in ast.walk(tree) if isinstance(x, ast.Compare)]:
        if len(c.ops) == 1 and isinstance(c.ops[0], (ast.In, ast.NotIn)):
            r = c.comparators[0]
            if isinstance(r, ast.Call) and isinstance(r.func, ast.Attribute) and r.func.attr == "keys" and not r.args and not r.keywords:
                c.comparators[0] = r.func.value
                n += 1
    return n


def t_else_after_return(tree):
    """if c: ...return/raise... else: B   ->   if c: ...return/raise... ; B"""
    from sa.model import terminates
    n = 0
    for holder, field, lst in list(_blocks(tree)):
        i = 0
        while i < len(lst):
            st = lst[i]
            if isinstance(st, ast.If) and st.orelse and not (len(st.orelse) == 1 and isinstance(st.orelse[0], ast.If)) and terminates(st.body):
                rest = st.orelse
                st.orelse = []
                lst[i + 1:i + 1] = rest
                n += 1
            i += 1
    return n


def t_early_return(tree):
    """def f(): ...; if c: A      ->   def f(): ...; if not c: return; A      (the if is the last statement of a function, no else)"""
    n = 0
    for fn in [x for x in ast.walk(tree) if isinstance(x, FUNC_TYPES)]:
        last = fn.body[-1]
        if isinstance(last, ast.If) and not last.orelse and len(fn.body) >= 1 and not any(isinstance(x, (ast.Yield, ast.YieldFrom)) for x in ast.walk(fn)) \
                and not any(isinstance(x, ast.NamedExpr) for x in ast.walk(last.test)):
            g = ast.If(test=_neg(last.test), body=[ast.Return(value=None)], orelse=[])
            ast.copy_location(g, last)
            ast.copy_location(g.body[0], last)
            fn.body = fn.body[:-1] + [g] + last.body
            n += 1
    return n


TRANSFORMS = [("format", t_format), ("rename", t_rename), ("ret_temp", t_ret_temp), ("cond_temp", t_cond_temp), ("guard_continue", t_guard_continue), ("swap_else", t_swap_else),
              ("lit_ctor", t_lit_ctor), ("len_zero", t_len_zero), ("in_keys", t_in_keys), ("else_after_return", t_else_after_return), ("early_return", t_early_return)]


def overlay_for(fn):
    ov, count = {}, 0
    for rel in anchor_files():
        src = open(os.path.join(ROOT, rel), encoding="utf-8", errors="replace").read()
        tree = ast.parse(src)
        set_parents(tree)
        count += fn(tree)
        ast.fix_missing_locations(tree)
        out = ast.unparse(tree) + "\n"
        compile(out, rel, "exec")
        ov[rel] = out
    return ov, count


def main():
    args = sys.argv[1:]
    which = [a for a in args if not a.upper().startswith("C") or not a[1:].isdigit()]
    pids = [a.upper() for a in args if a.upper().startswith("C") and a[1:].isdigit()] or ["C%02d" % i for i in range(1, 21)]
    if not which or which == ["all"]:
        which = [n for n, _ in TRANSFORMS]
    rc = 0
    for name, fn in TRANSFORMS:
        if name not in which:
            continue
        ov, count = overlay_for(fn)
        if os.environ.get("MECH_DUMP"):
            json.dump(ov, open(os.path.join(os.environ["MECH_DUMP"], "mech_%s.json" % name), "w"))
        noisy = []
        for pid in pids:
            repo = Repo(ROOT, overlay=ov)
            cx = Check(pid, "quick", repo, quiet=True)
            try:
                importlib.import_module("sa.rules.%s" % pid.lower()).run(cx)
            except Exception as e:
                cx.error("internal error %r" % (e,), "engine")
            code = cx.finish(write_evidence=False)
            if code != 0:
                noisy.append((pid, code, sorted(set(v.rule for v in cx.new_violations)), [str(e)[:120] for e in cx.errors][:2]))
        print("%-15s %5d rewrites in %d files: %s" % (name, count, len(ov), "all %d checks silent" % len(pids) if not noisy else "NOISY %s" % noisy))
        if noisy:
            rc = 1
    return rc


if __name__ == "__main__":
    sys.exit(main())
