#!/usr/bin/env python3
"""Record the local-name table of the current /repo tree into /verif/pinned/locals.json (run once per pinned tree)."""
import json, os, sys
sys.path.insert(0, "/verif")
from sa.model import Repo
from sa import alpha
repo = Repo(sys.argv[1] if len(sys.argv) > 1 else "/repo")
repo.normalise = False
out = {}
for m in repo.all_modules():
    t = alpha.record(m)
    import hashlib
    t["__digest__"] = hashlib.sha1(m.src.encode("utf-8")).hexdigest()
    out[m.name] = t
os.makedirs("/verif/pinned", exist_ok=True)
json.dump(out, open("/verif/pinned/locals.json", "w"), sort_keys=True, separators=(",", ":"))
print(len(out), "modules", sum(len(v) for v in out.values()), "functions", os.path.getsize("/verif/pinned/locals.json"), "bytes")
