#!/usr/bin/env python3
"""Record the local-name table of the current /repo tree into /verif/pinned/locals.json (run once per pinned tree)."""
import json, os, sys
sys.path.insert(0, "/verif")
from sa.model import Repo
from sa import alpha
repo = Repo(sys.argv[1] if len(sys.argv) > 1 else "/repo")
repo.normalise = False
out = {}
for m in repo.all_modules():
    t = alpha.record(m)
    import hashlib
    t["__digest__"] = hashlib.sha1(m.src.encode("utf-8")).hexdigest()
    import ast as _ast
    t["__top__"] = sorted(set(n.id for st in m.tree.body if isinstance(st, (_ast.Assign, _ast.AnnAssign, _ast.AugAssign)) for n in _ast.walk(st)
                              if isinstance(n, _ast.Name) and isinstance(n.ctx, _ast.Store)))
    t["__classtop__"] = dict((c.name, sorted(set(n.id for st in c.body if isinstance(st, (_ast.Assign, _ast.AnnAssign)) for tg in (st.targets if isinstance(st, _ast.Assign) else [st.target])
                                                  for n in _ast.walk(tg) if isinstance(n, _ast.Name)))) for c in m.tree.body if isinstance(c, _ast.ClassDef))
    out[m.name] = t
os.makedirs("/verif/pinned", exist_ok=True)
json.dump(out, open("/verif/pinned/locals.json", "w"), sort_keys=True, separators=(",", ":"))
print(len(out), "modules", sum(len(v) for v in out.values()), "functions", os.path.getsize("/verif/pinned/locals.json"), "bytes")
