#!/usr/bin/env python3
"""Add the sixth-round seeds (/tmp/wt/cNN/_seed6, confirmed as <tag>4.json) to /verif/seeded as <PID>-K."""
import json, os, shutil, glob, subprocess
OUT = "/verif/seeded"
rows = []
for d in sorted(glob.glob("/tmp/wt/c[0-9][0-9]/_seed6")):
    p = os.path.basename(os.path.dirname(d)); P = p.upper()
    for x, y in (("A", "K"),):
        diff, demo, md = (os.path.join(d, "%s%s" % (x, s)) for s in (".diff", "_demo.py", ".md"))
        if not (os.path.isfile(diff) and os.path.isfile(demo)):
            continue
        cj = "/tmp/wt/confirm/%s%s6.log" % (p, x)
        conf = {}
        if os.path.isfile(cj) and os.path.getsize(cj):
            t = open(cj).read()
            try:
                conf = json.loads(t[t.index("{"):])
            except ValueError:
                conf = {}
        sid = "%s-%s" % (P, y)
        if not conf.get("ok"):
            rows.append((sid, "NOT CONFIRMED")); continue
        ev = json.loads(subprocess.run(["/venv/bin/python", "/verif/tools/eval_diff.py", diff], stdout=subprocess.PIPE).stdout.decode())
        od = os.path.join(OUT, sid); os.makedirs(od, exist_ok=True)
        shutil.copy(diff, os.path.join(od, "patch.diff")); shutil.copy(demo, os.path.join(od, "demo.py"))
        note = open(md).read() if os.path.isfile(md) else ""
        meta = {
            "id": sid, "property": P, "round": 6,
            "origin": "independent sub-agent given only the property text, a scratch worktree and one-line descriptions of the ten earlier seeds to avoid (nothing from /verif)",
            "what_it_breaks_and_needs": note.strip(),
            "confirmed": {"how": "tools/confirm_seed.py in a scratch worktree of /repo HEAD: demo on the clean tree, demo with patch.diff applied, package import, full baseline test command with the patch",
                          "demo_clean_exit": conf.get("demo_clean_rc"), "demo_patched_exit": conf.get("demo_patched_rc"), "imports_ok": conf.get("imports_rc") == 0,
                          "suite_failed_with_patch": conf.get("suite_failed"), "new_failures_after_isolated_rerun": conf.get("new_failures"),
                          "flaky_under_parallel_load_passed_alone": conf.get("new_failures_first_run")},
            "checks": {"how": "tools/eval_diff.py (in-memory overlay of patch.diff on /repo, every property's quick check)",
                       "detected_by_target_property": P in ev.get("fired", {}), "rules_fired": ev.get("fired", {}), "analysis_errors": list(ev.get("errors", {}).keys())},
        }
        if P not in ev.get("fired", {}):
            meta["checks"]["not_detected_because"] = "value-level change outside what the structural rules decide (see DESIGN.md 12.4)"
            meta["expected_undetected"] = True
        json.dump(meta, open(os.path.join(od, "meta.json"), "w"), indent=1)
        rows.append((sid, "ok", ev.get("fired", {})))
for r in rows:
    print(*r)
