#!/bin/sh
# confirm every seed (demo both ways + full suite) with limited concurrency
cd /verif
ls -d /tmp/wt/c[0-9][0-9]/_seed | while read d; do p=$(basename $(dirname $d)); for x in A B; do [ -f $d/$x.diff ] && [ -f $d/${x}_demo.py ] && echo "$p $x"; done; done > /tmp/wt/confirm/todo.txt
cat /tmp/wt/confirm/todo.txt | xargs -P 3 -L 1 sh -c 'p=$0; x=$1; [ -s /tmp/wt/confirm/${p}${x}.json ] && grep -q "\"ok\": true" /tmp/wt/confirm/${p}${x}.json || python3 tools/confirm_seed.py /tmp/wt/$p/_seed/$x.diff /tmp/wt/$p/_seed/${x}_demo.py ${p}${x} > /tmp/wt/confirm/${p}${x}.json 2>&1'
echo ALL-DONE
