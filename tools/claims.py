"""What MANIFEST.json claims, per property (technique, level text, DESIGN ref)."""
CLAIMS = {
    "C01": ("ast guard extraction + CFG dominance, who-may-write / who-may-call sweeps, def-use provenance of the execution order",
            "Decides on every path of dr.run_components that the execution call and the broker store are guarded by 'not in broker', 'in graph', 'registered'; that Broker.__setitem__ refuses overwrites; that no code outside Broker writes Broker.instances and only run_components executes delegates; that the order handed to run_components is toposort of the same graph; shape of toposort and the dependency closure. Does not decide the topological sort as an algorithm.",
            "DESIGN.md §3 C01"),
}
_PENDING = "check under construction in this session; will be claimed (clause-level static rules per DESIGN.md) or declared not applicable with the reason"
NOT_APPLICABLE = dict(("C%02d" % i, _PENDING) for i in range(1, 21) if "C%02d" % i not in CLAIMS)
