"""What MANIFEST.json claims, per property (technique, level text, DESIGN ref)."""
CLAIMS = {
    "C01": ("ast guard extraction + CFG dominance, who-may-write / who-may-call sweeps, def-use provenance of the execution order",
            "Decides on every path of dr.run_components that the execution call and the broker store are guarded by 'not in broker', 'in graph', 'registered'; that Broker.__setitem__ refuses overwrites; that no code outside Broker writes Broker.instances and only run_components executes delegates; that the order handed to run_components is toposort of the same graph; shape of toposort and the dependency closure. Does not decide the topological sort as an algorithm.",
            "DESIGN.md §3 C01"),
    "C02": ("idiom-normalised predicate recognition, def-use of the argument list (list vs set kinds), guard/dominance order in every process(), class-hierarchy sweep of invoke overrides",
            "Decides that requirements are classified and flattened in declaration order, that the binder iterates the ordered deps list with results.get, that the missing-dependency predicate is exactly (required absent) + (group with no member present), that every process() checks ignore -> missing -> invoke in that order, that is_enabled guards execution and defaults to True, and that every invoke override reaches the binder or is a frozen convention. Values bound are not decided.",
            "DESIGN.md §3 C02"),
    "C03": ("exception-escape rule with benign-call table, except-ladder shadowing via the exception hierarchy, call-site attribution/traceback/gating rules over every add_exception site, CFG must-pass-through (zero-iteration loop edges) for record-before-skip",
            "Decides that no exception leaves the execution loop or the observer loop, that no handler is shadowed, that every add_exception site records against the failing component (or a registry point of it) with a traceback formatted in the same handler, that skips are recorded only under store_skips, and that every error arm that turns into a skip records on every path. Value equality of unaffected components is not decided.",
            "DESIGN.md §3 C03"),
    "C04": ("declared-superset-of-used sweep over all registered datasources and factories (resolved symbols), set-type inference with ordered/commutative sink classification, shape and sibling-agreement rules for the sub-graph decomposition and the three drivers",
            "Decides necessary conditions of schedule independence: every shipped datasource/factory and the engine itself read the broker only at declared dependencies; first-match picks iterate ordered lists; get_subgraphs has the closure/no-loss/no-duplication shape; single-pass, incremental and pooled drivers agree; no hash-ordered iteration feeds an ordered result in the order-critical core. Confluence of whole evaluations is NOT decided.",
            "DESIGN.md §3 C04"),
    "C05": ("def-use and ordering rules on the registry-point selection loop, registration/ignore wiring order, sibling agreement of every process(), factory registration tables, flag-propagation table agreement",
            "Decides that a registry point scans its ordered implementation list latest-first and returns the first one present (else SkipComponent), that registration is append-only, that earlier handlers of a context are told to ignore it before the new one is recorded, that the ignore check precedes invoke in every process(), that every factory declares its context as a dependency, and that all registry-point flags are copied to implementation and delegate. Arbitrary third-party registration histories are not decided.",
            "DESIGN.md §3 C05"),
}
_PENDING = "check under construction in this session; will be claimed (clause-level static rules per DESIGN.md) or declared not applicable with the reason"
NOT_APPLICABLE = dict(("C%02d" % i, _PENDING) for i in range(1, 21) if "C%02d" % i not in CLAIMS)
