"""What MANIFEST.json claims, per property (technique, level text, DESIGN ref)."""
CLAIMS = {
    "C01": ("ast guard extraction + CFG dominance, who-may-write / who-may-call sweeps, def-use provenance of the execution order",
            "Decides on every path of dr.run_components that the execution call and the broker store are guarded by 'not in broker', 'in graph', 'registered'; that Broker.__setitem__ refuses overwrites; that no code outside Broker writes Broker.instances and only run_components executes delegates; that the order handed to run_components is toposort of the same graph; shape of toposort and the dependency closure. Does not decide the topological sort as an algorithm.",
            "DESIGN.md §3 C01"),
    "C02": ("idiom-normalised predicate recognition, def-use of the argument list (list vs set kinds), guard/dominance order in every process(), class-hierarchy sweep of invoke overrides",
            "Decides that requirements are classified and flattened in declaration order, that the binder iterates the ordered deps list with results.get, that the missing-dependency predicate is exactly (required absent) + (group with no member present), that every process() checks ignore -> missing -> invoke in that order, that is_enabled guards execution and defaults to True, and that every invoke override reaches the binder or is a frozen convention. Values bound are not decided.",
            "DESIGN.md §3 C02"),
    "C03": ("exception-escape rule with benign-call table, except-ladder shadowing via the exception hierarchy, call-site attribution/traceback/gating rules over every add_exception site, CFG must-pass-through (zero-iteration loop edges) for record-before-skip",
            "Decides that no exception leaves the execution loop or the observer loop, that no handler is shadowed, that every add_exception site records against the failing component (or a registry point of it) with a traceback formatted in the same handler, that skips are recorded only under store_skips, and that every error arm that turns into a skip records on every path. Value equality of unaffected components is not decided.",
            "DESIGN.md §3 C03"),
}
_PENDING = "check under construction in this session; will be claimed (clause-level static rules per DESIGN.md) or declared not applicable with the reason"
NOT_APPLICABLE = dict(("C%02d" % i, _PENDING) for i in range(1, 21) if "C%02d" % i not in CLAIMS)
