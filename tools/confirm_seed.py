#!/usr/bin/env python3
"""Confirm a seeded change in a scratch worktree: demo passes clean, fails with the patch, suite adds no failure.
usage: confirm_seed.py <diff> <demo.py> <tag> [--no-suite]"""
import json, os, subprocess, sys, shutil, xml.etree.ElementTree as ET
diff, demo, tag = sys.argv[1:4]
suite = "--no-suite" not in sys.argv
wt = "/tmp/wt/v_%s" % tag
PY = "/venv/bin/python"
def sh(cmd, cwd=None, timeout=1500):
    p = subprocess.run(cmd, shell=True, cwd=cwd, stdout=subprocess.PIPE, stderr=subprocess.STDOUT, timeout=timeout)
    return p.returncode, p.stdout.decode("utf-8", "replace")
res = {"tag": tag, "diff": diff}
sh("git -C /repo worktree remove --force %s" % wt)
rc, out = sh("git -C /repo worktree add --detach %s HEAD" % wt)
try:
    os.makedirs(os.path.join(wt, "_seed"), exist_ok=True)
    dn = os.path.join("_seed", os.path.basename(demo))
    shutil.copy(demo, os.path.join(wt, dn))
    runner = "%s %s" % (PY, dn) if "def test_" not in open(demo).read() or "__main__" in open(demo).read() else "%s -m pytest -q -p no:cacheprovider %s" % (PY, dn)
    rc0, o0 = sh(runner, cwd=wt, timeout=300)
    res["demo_clean_rc"] = rc0
    rca, oa = sh("git apply %s" % os.path.abspath(diff), cwd=wt)
    res["apply_rc"] = rca
    if rca != 0:
        res["apply_out"] = oa[-400:]
    rc1, o1 = sh(runner, cwd=wt, timeout=300)
    res["demo_patched_rc"] = rc1
    res["demo_patched_tail"] = o1[-600:]
    if rc0 != 0:
        res["demo_clean_tail"] = o0[-600:]
    rcc, oc = sh("%s -c 'import insights, insights.core.dr, insights.core.spec_factory, insights.client.config'" % PY, cwd=wt)
    res["imports_rc"] = rcc
    if suite and rca == 0:
        rcs, os_ = sh("%s -m pytest -q -p no:cacheprovider --timeout=900 --continue-on-collection-errors --junitxml=%s/_junit.xml" % (PY, wt), cwd=wt, timeout=1400)
        base = set(open("/tmp/wt/BASELINE_FAILING.txt").read().split("\n"))
        stable = set(json.load(open("/root/.vp/BASELINE.json"))["stable_pass"])
        failed, passed = set(), set()
        for tc in ET.parse("%s/_junit.xml" % wt).getroot().iter("testcase"):
            tid = (tc.get("classname") or "") + "::" + (tc.get("name") or "")
            if tc.find("failure") is not None or tc.find("error") is not None:
                failed.add(tid)
            elif tc.find("skipped") is None:
                passed.add(tid)
        res["suite_failed"] = len(failed)
        newf = sorted(failed - base)
        missing = sorted(stable - (passed - failed))
        # tests that share /tmp files or timers are flaky when several suites run at once: re-run them alone
        still = []
        for tid in sorted(set(newf) | set(missing))[:12]:
            cls, _, name = tid.partition("::")
            path = cls.replace(".", "/") + ".py"
            okr = False
            for _ in range(2):
                r, o = sh("%s -m pytest -q -p no:cacheprovider --timeout=900 '%s::%s'" % (PY, path, name), cwd=wt, timeout=900)
                if r == 0:
                    okr = True
                    break
            if not okr:
                still.append(tid)
        if still:
            # order-dependent tests (they need modules imported by earlier tests) cannot be judged alone: run the whole suite once more
            rcs2, _ = sh("%s -m pytest -q -p no:cacheprovider --timeout=900 --continue-on-collection-errors --junitxml=%s/_junit2.xml" % (PY, wt), cwd=wt, timeout=1400)
            failed2 = set()
            for tc in ET.parse("%s/_junit2.xml" % wt).getroot().iter("testcase"):
                tid = (tc.get("classname") or "") + "::" + (tc.get("name") or "")
                if tc.find("failure") is not None or tc.find("error") is not None:
                    failed2.add(tid)
            still = [t for t in still if t in failed2]
            res["second_full_run_failed"] = len(failed2)
        res["new_failures_first_run"] = newf[:10]
        res["new_failures"] = still
        res["stable_pass_missing"] = len([t for t in missing if t in still])
    res["ok"] = bool(res.get("demo_clean_rc") == 0 and res.get("apply_rc") == 0 and res.get("demo_patched_rc") != 0 and res.get("imports_rc") == 0 and (not suite or (not res.get("new_failures") and res.get("stable_pass_missing") == 0)))
finally:
    sh("git -C /repo worktree remove --force %s" % wt)
print(json.dumps(res, indent=1))
