#!/bin/sh
# eval_batch.sh c05:A c05:B ...   -> one line per seed
for s in "$@"; do p=${s%%:*}; x=${s##*:}; P=$(echo $p | tr a-z A-Z)
  python3 /verif/tools/eval_seed.py /tmp/wt/$p/_seed/$x.diff $P > /tmp/wt/confirm/eval_${p}${x}.json 2>&1
  python3 - "$p" "$x" <<'PY'
import json,sys
p,x=sys.argv[1:3]
try:
    r=json.load(open('/tmp/wt/confirm/eval_%s%s.json'%(p,x)))
    f={k:sorted(set(l.split('rule=')[1].split(' ')[0] for l in v if l.startswith('FINDING'))) for k,v in r['fired'].items()}
    print("%s %s target=%s fired=%s errors=%s clean=%s"%(p,x,r['detected_by_target'],f,list(r['errors'].keys()),r['repo_clean_after']))
except Exception as e:
    print(p,x,"EVAL-ERROR",e, open('/tmp/wt/confirm/eval_%s%s.json'%(p,x)).read()[-300:])
PY
done
