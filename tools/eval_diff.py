#!/venv/bin/python
"""Evaluate a unified diff in memory (nothing is written to /repo): which checks report it?

    tools/eval_diff.py <diff> [PID ...]        (default: all 20, quick tier; VERIF_TIER=thorough for the sweeps)
prints one JSON line: {"diff":..., "applies":bool, "fired":{PID:[rules]}, "errors":{PID:[...]}}
"""
import importlib, json, os, sys
HERE = os.path.dirname(os.path.dirname(os.path.abspath(__file__)))
sys.path.insert(0, HERE)
from sa.model import Repo            # noqa: E402
from sa.report import Check          # noqa: E402
from sa.selftest import apply_diff   # noqa: E402

root = os.environ.get("VERIF_ROOT", "/repo")
diff = sys.argv[1]
pids = [a.upper() for a in sys.argv[2:]] or ["C%02d" % i for i in range(1, 21)]
tier = os.environ.get("VERIF_TIER", "quick")
ov = apply_diff(root, diff)
res = {"diff": diff, "applies": ov is not None, "fired": {}, "errors": {}}
if ov is not None:
    for pid in pids:
        repo = Repo(root, overlay=ov)
        cx = Check(pid, tier, repo, quiet=True)
        try:
            importlib.import_module("sa.rules.%s" % pid.lower()).run(cx)
        except Exception as e:
            cx.error("internal error %r" % (e,), "engine")
        code = cx.finish(write_evidence=False)
        if cx.new_violations:
            res["fired"][pid] = sorted(set(v.rule for v in cx.new_violations))
        if cx.errors:
            res["errors"][pid] = [str(e)[:200] for e in cx.errors][:3]
print(json.dumps(res))
