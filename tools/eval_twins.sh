#!/bin/sh
# eval_twins.sh c01 c02 ...  -> for each twin diff: which checks are NOT silent (should be none)
for p in "$@"; do P=$(echo $p | tr a-z A-Z)
  for k in 1 2 3 4; do d=/tmp/wt/$p/_twin/T$k.diff; [ -f $d ] || continue
    python3 /verif/tools/eval_seed.py $d $P > /tmp/wt/confirm/twin_${p}T$k.json 2>&1
    python3 - "$p" "$k" <<'PY'
import json,sys
p,k=sys.argv[1:3]
try:
    r=json.load(open('/tmp/wt/confirm/twin_%sT%s.json'%(p,k)))
    f={kk:sorted(set(l.split('rule=')[1].split(' ')[0] for l in v if l.startswith('FINDING'))) for kk,v in r['fired'].items()}
    status = "SILENT" if not f and not r['errors'] else "NOISY"
    print("%s T%s %s apply=%s fired=%s errors=%s"%(p,k,status,r['apply_rc'],f,{kk:[e.split('reason=')[1][:140] for e in v] for kk,v in r['errors'].items()}))
except Exception as e:
    print(p,k,"EVAL-ERROR",e)
PY
  done
done
