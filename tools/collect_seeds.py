#!/usr/bin/env python3
"""Build /verif/seeded/<id>/ (patch.diff, demo, meta.json) from the confirmed seeds under /tmp/wt/*/_seed."""
import json, os, shutil, glob, sys
OUT = "/verif/seeded"
rows = []
for d in sorted(glob.glob("/tmp/wt/c[0-9][0-9]/_seed")):
    p = os.path.basename(os.path.dirname(d))
    P = p.upper()
    for x in ("A", "B"):
        diff, demo, md = (os.path.join(d, "%s%s" % (x, s)) for s in (".diff", "_demo.py", ".md"))
        if not (os.path.isfile(diff) and os.path.isfile(demo)):
            continue
        tag = "%s%s" % (p, x)
        cj = "/tmp/wt/confirm/%s.json" % tag
        ej = "/tmp/wt/confirm/eval_%s.json" % tag
        conf = json.load(open(cj)) if os.path.isfile(cj) and os.path.getsize(cj) else {}
        ev = json.load(open(ej)) if os.path.isfile(ej) else {}
        sid = "%s-%s" % (P, x)
        if not conf.get("ok"):
            rows.append((sid, "NOT CONFIRMED", conf.get("new_failures"), conf.get("demo_clean_rc"), conf.get("demo_patched_rc")))
            continue
        od = os.path.join(OUT, sid)
        os.makedirs(od, exist_ok=True)
        shutil.copy(diff, os.path.join(od, "patch.diff"))
        shutil.copy(demo, os.path.join(od, "demo.py"))
        note = open(md).read() if os.path.isfile(md) else ""
        fired = dict((k, sorted(set(l.split("rule=")[1].split(" ")[0] for l in v if l.startswith("FINDING")))) for k, v in ev.get("fired", {}).items())
        meta = {
            "id": sid, "property": P, "origin": "independent sub-agent given only the property text and a scratch worktree (nothing from /verif)",
            "what_it_breaks_and_needs": note.strip(),
            "confirmed": {
                "how": "tools/confirm_seed.py in a scratch worktree of /repo HEAD: demo on the clean tree, demo with patch.diff applied, package import, full baseline test command with the patch; tests outside the 50 pre-existing failures re-run alone",
                "demo_clean_exit": conf.get("demo_clean_rc"), "demo_patched_exit": conf.get("demo_patched_rc"), "imports_ok": conf.get("imports_rc") == 0,
                "suite_failed_with_patch": conf.get("suite_failed"), "new_failures_after_isolated_rerun": conf.get("new_failures"),
                "flaky_under_parallel_load_passed_alone": conf.get("new_failures_first_run"),
            },
            "checks": {
                "how": "tools/eval_seed.py: git -C /repo apply patch.diff; every property's quick check and the target's thorough sweep (self-test off); git -C /repo checkout -- .",
                "detected_by_target_property": ev.get("detected_by_target"), "rules_fired": fired, "analysis_errors": list(ev.get("errors", {}).keys()),
            },
        }
        json.dump(meta, open(os.path.join(od, "meta.json"), "w"), indent=1)
        rows.append((sid, "ok", fired))
for r in rows:
    print(*r)

# ---- benign twins (behaviour-preserving edits used to measure false alarms) -------------------------------------
TW = os.path.join(OUT, "twins")
os.makedirs(TW, exist_ok=True)
trows = []
for d in sorted(glob.glob("/tmp/wt/c[0-9][0-9]/_twin")):
    p = os.path.basename(os.path.dirname(d))
    P = p.upper()
    md = os.path.join(d, "T.md")
    if os.path.isfile(md):
        shutil.copy(md, os.path.join(TW, "%s.md" % P))
    for k in (1, 2, 3, 4):
        diff = os.path.join(d, "T%d.diff" % k)
        if not os.path.isfile(diff):
            continue
        shutil.copy(diff, os.path.join(TW, "%s-T%d.diff" % (P, k)))
        ej = "/tmp/wt/confirm/twin_%sT%d.json" % (p, k)
        ev = json.load(open(ej)) if os.path.isfile(ej) and os.path.getsize(ej) else {}
        fired = dict((kk, sorted(set(l.split("rule=")[1].split(" ")[0] for l in v if l.startswith("FINDING")))) for kk, v in ev.get("fired", {}).items())
        trows.append((P, k, "silent" if ev and not fired and not ev.get("errors") else "NOISY %s %s" % (fired, list(ev.get("errors", {}).keys()))))

# ---- README -----------------------------------------------------------------------------------------------------
with open(os.path.join(OUT, "README.md"), "w") as fh:
    fh.write("# Seeded changes\n\n"
             "`<PID>-A`, `<PID>-B`: property-breaking edits written by independent sub-agents that saw only the property text and a scratch\n"
             "worktree of /repo (nothing from /verif).  Each directory holds `patch.diff` (apply with `git -C /repo apply`), `demo.py` (exits 0 on\n"
             "the clean tree, non-zero with the patch) and `meta.json` (what the change breaks and needs to manifest, how it was confirmed, which\n"
             "rules report it).  `twins/`: behaviour-preserving edits by the same kind of sub-agent, used to measure false alarms (every check must stay\n"
             "silent on them).  Re-evaluate one with `python3 tools/eval_seed.py seeded/<id>/patch.diff <PID>`.\n\n"
             "| seed | confirmed | reported by |\n|---|---|---|\n")
    for r in rows:
        fh.write("| %s | %s | %s |\n" % (r[0], r[1], "; ".join("%s: %s" % (k, ",".join(v)) for k, v in sorted(r[2].items())) if r[1] == "ok" and isinstance(r[2], dict) else r[2:]))
    fh.write("\n| twin | all 20 quick checks + target thorough sweep |\n|---|---|\n")
    for P, k, st in trows:
        fh.write("| %s-T%d | %s |\n" % (P, k, st))
print("twins:", len(trows), "noisy:", [(P, k) for P, k, st in trows if st != "silent"])
