#!/usr/bin/env python3
"""Build /verif/seeded/<id>/ (patch.diff, demo, meta.json) from the confirmed seeds under /tmp/wt/*/_seed."""
import json, os, shutil, glob, sys
OUT = "/verif/seeded"
rows = []
for d in sorted(glob.glob("/tmp/wt/c[0-9][0-9]/_seed")):
    p = os.path.basename(os.path.dirname(d))
    P = p.upper()
    for x in ("A", "B"):
        diff, demo, md = (os.path.join(d, "%s%s" % (x, s)) for s in (".diff", "_demo.py", ".md"))
        if not (os.path.isfile(diff) and os.path.isfile(demo)):
            continue
        tag = "%s%s" % (p, x)
        cj = "/tmp/wt/confirm/%s.json" % tag
        ej = "/tmp/wt/confirm/eval_%s.json" % tag
        conf = json.load(open(cj)) if os.path.isfile(cj) and os.path.getsize(cj) else {}
        ev = json.load(open(ej)) if os.path.isfile(ej) else {}
        sid = "%s-%s" % (P, x)
        if not conf.get("ok"):
            rows.append((sid, "NOT CONFIRMED", conf.get("new_failures"), conf.get("demo_clean_rc"), conf.get("demo_patched_rc")))
            continue
        od = os.path.join(OUT, sid)
        os.makedirs(od, exist_ok=True)
        shutil.copy(diff, os.path.join(od, "patch.diff"))
        shutil.copy(demo, os.path.join(od, "demo.py"))
        note = open(md).read() if os.path.isfile(md) else ""
        fired = dict((k, sorted(set(l.split("rule=")[1].split(" ")[0] for l in v if l.startswith("FINDING")))) for k, v in ev.get("fired", {}).items())
        meta = {
            "id": sid, "property": P, "origin": "independent sub-agent given only the property text and a scratch worktree (nothing from /verif)",
            "what_it_breaks_and_needs": note.strip(),
            "confirmed": {
                "how": "tools/confirm_seed.py in a scratch worktree of /repo HEAD: demo on the clean tree, demo with patch.diff applied, package import, full baseline test command with the patch; tests outside the 50 pre-existing failures re-run alone",
                "demo_clean_exit": conf.get("demo_clean_rc"), "demo_patched_exit": conf.get("demo_patched_rc"), "imports_ok": conf.get("imports_rc") == 0,
                "suite_failed_with_patch": conf.get("suite_failed"), "new_failures_after_isolated_rerun": conf.get("new_failures"),
                "flaky_under_parallel_load_passed_alone": conf.get("new_failures_first_run"),
            },
            "checks": {
                "how": "tools/eval_seed.py: git -C /repo apply patch.diff; every property's quick check and the target's thorough sweep (self-test off); git -C /repo checkout -- .",
                "detected_by_target_property": ev.get("detected_by_target"), "rules_fired": fired, "analysis_errors": list(ev.get("errors", {}).keys()),
            },
        }
        json.dump(meta, open(os.path.join(od, "meta.json"), "w"), indent=1)
        rows.append((sid, "ok", fired))
for r in rows:
    print(*r)
