#!/usr/bin/env python3
"""Apply a seeded diff to /repo, run every property's quick check (and the target's thorough sweep), revert.
usage: eval_seed.py <diff> <target pid>"""
import json, os, subprocess, sys
diff, pid = sys.argv[1], sys.argv[2]
def sh(cmd, cwd="/verif"):
    p = subprocess.run(cmd, shell=True, cwd=cwd, stdout=subprocess.PIPE, stderr=subprocess.STDOUT)
    return p.returncode, p.stdout.decode("utf-8", "replace")
rc, out = sh("git -C /repo status --porcelain")
assert not [l for l in out.splitlines() if not l.startswith("??")], "repo not clean: " + out
rc, out = sh("git -C /repo apply %s" % os.path.abspath(diff))
res = {"diff": diff, "target": pid, "apply_rc": rc, "fired": {}, "errors": {}}
try:
    if rc == 0:
        for i in range(1, 21):
            p = "C%02d" % i
            tier = "thorough" if p == pid else "quick"
            r, o = sh("VERIF_NO_SELFTEST=1 ./check %s --tier %s --no-evidence" % (p, tier))
            if r == 1:
                res["fired"][p] = [l.strip() for l in o.splitlines() if l.startswith("FINDING") or l.strip().startswith("broken:")][:6]
            elif r == 2:
                res["errors"][p] = [l for l in o.splitlines() if l.startswith("ANALYSIS-ERROR")][:3]
finally:
    sh("git -C /repo checkout -- .")
    r, o = sh("git -C /repo status --porcelain")
    res["repo_clean_after"] = not [l for l in o.splitlines() if not l.startswith("??")]
res["detected_by_target"] = pid in res["fired"]
print(json.dumps(res, indent=1))
