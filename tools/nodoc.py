#!/usr/bin/env python3
"""Print a python file with docstrings removed (reading aid)."""
import ast, sys
p = sys.argv[1]; a = int(sys.argv[2]) if len(sys.argv) > 2 else 1; b = int(sys.argv[3]) if len(sys.argv) > 3 else 10**9
src = open(p).read(); lines = src.splitlines(); t = ast.parse(src); skip = set()
for n in ast.walk(t):
    if isinstance(n, (ast.FunctionDef, ast.ClassDef, ast.Module, ast.AsyncFunctionDef)) and n.body and isinstance(n.body[0], ast.Expr) and isinstance(getattr(n.body[0], 'value', None), ast.Constant) and isinstance(n.body[0].value.value, str):
        skip.update(range(n.body[0].lineno, n.body[0].end_lineno + 1))
    elif isinstance(n, ast.Expr) and isinstance(n.value, ast.Constant) and isinstance(n.value.value, str):
        skip.update(range(n.lineno, n.end_lineno + 1))
for i, l in enumerate(lines, 1):
    if a <= i <= b and i not in skip and l.strip():
        print("%d\t%s" % (i, l))
