#!/usr/bin/env python3
"""Regenerate /verif/MANIFEST.json from the table below (keeps it schema-valid)."""
import json
import os

HERE = os.path.dirname(os.path.dirname(os.path.abspath(__file__)))

BASE_NOTE = ("Trusted base: CPython's ast parser; the purpose-built resolver (imports, class hierarchy, guards, CFG) in /verif/sa; "
             "the standard library and third-party calls behave as documented. Dynamic rebinding (monkey-patching, setattr with computed names) is not modelled. "
             "Only the structural clauses named in the level text are decided; the value-/history-quantified remainder of the property is listed under 'not_decided' in the evidence and in DESIGN.md.")

# pid -> (technique, level text, design ref)
CLAIMS = {}

PENDING = {}


def load_tables():
    import importlib.util
    p = os.path.join(HERE, "tools", "claims.py")
    spec = importlib.util.spec_from_file_location("claims", p)
    m = importlib.util.module_from_spec(spec)
    spec.loader.exec_module(m)
    return m.CLAIMS, m.NOT_APPLICABLE


def main():
    claims, na = load_tables()
    checks = []
    for pid in sorted(claims):
        technique, text, ref = claims[pid]
        checks.append({
            "property_id": pid,
            "quick_cmd": "./check %s --tier quick" % pid,
            "thorough_cmd": "./check %s --tier thorough" % pid,
            "evidence_file": "evidence/%s.json" % pid,
            "replay_cmd_template": "./check %s --replay {path}" % pid,
            "engine": "sa",
            "level_claimed": {"category": "other", "text": text, "design_ref": ref},
            "level_note": BASE_NOTE,
            "technique": technique,
        })
    man = {
        "version": 1,
        "setup_cmd": "true",
        "hooks": {
            "guard": "INSIGHTS_CORE_VERIF",
            "enable": "none needed: the checks parse /repo's working tree with ast and never import or run it; no hook or instrumentation commit exists",
            "baseline_off_cmd": "cd /repo && /venv/bin/python -m pytest -ra -q -p no:cacheprovider --timeout=900 --continue-on-collection-errors",
            "source_commits": [],
            "add_only": True,
        },
        "engines": [{
            "name": "sa",
            "path": "sa/",
            "serves_properties": sorted(claims),
            "kind_free_text": "purpose-built static analyser over the ast of the current working tree: resolved symbols and class hierarchy, guard extraction, statement CFG with exceptional edges (dominance, must-pass-through), def-use / taint, who-may-call / who-may-write sweeps, sibling and table agreement, finite abstract interpretation (truthiness, sign), priority-faithful interpretation of the regex constants (the program is never run), structured path enumeration, code-template reconstruction; behaviour-preserving view normalisation against a pinned name table; in-memory mutant and diff overlays as liveness self-test",
        }],
        "checks": checks,
        "notes": "Static analysis only. Exit 0 = every rule instance discharged; exit 1 + VIOLATION = a rule instance is broken and not listed in known_findings.txt; exit 2 + ANALYSIS-ERROR = an anchor vanished, an instance floor is not met or a construct is in an unrecognised form (no verdict). Thorough = whole-repository sweeps plus the liveness self-test (recorded in evidence).",
        "not_applicable": [{"property_id": p, "reason": r} for p, r in sorted(na.items())],
    }
    with open(os.path.join(HERE, "MANIFEST.json"), "w") as fh:
        json.dump(man, fh, indent=1)
        fh.write("\n")
    print("MANIFEST.json: %d checks, %d not_applicable" % (len(checks), len(na)))


if __name__ == "__main__":
    main()
