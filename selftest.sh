#!/bin/sh
# ./selftest.sh [C01 ...]  - run the liveness self-test (mutants + twins) for the given properties
HERE="$(cd "$(dirname "$0")" && pwd)"
if [ -x /venv/bin/python ]; then PY=/venv/bin/python; else PY=python3; fi
cd "$HERE" && exec "$PY" -B -m sa.selftest "$@"
